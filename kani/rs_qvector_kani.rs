// Kani kernels for src/qvector/rs_qvector.rs
use super::*;

/// the derived Default of RSQVector is structurally the vector built from the empty quad vector
/// (concrete execution: no symbolic input) — discharges the trusted `vx_default` alias of the Verus unit rsq
#[kani::proof]
#[kani::unwind(70)]
fn k5_rsq_default() {
    let d256 = RSQVector256::default();
    let e256 = RSQVector256::from(QVector::default());
    assert!(d256 == e256);
    assert!(d256.len() == 0);
    assert!(d256.rank(0, 0) == Some(0));
    let d512 = RSQVector512::default();
    let e512 = RSQVector512::from(QVector::default());
    assert!(d512 == e512);
}
