// Kani kernels K5 for src/qvector/mod.rs (child module of `qvector`: sees the private DataLine).
// Oracles are written "ctpop-to-ctpop" plus a symbolic slot index (DESIGN §0).
use super::*;

/// slot j of a line: 2*high bit + low bit (high plane = words[0..2], low plane = words[2..4])
pub fn slot(l: &DataLine, j: usize) -> u8 {
    let hi = (l.words[j >> 7] >> (j & 127)) & 1;
    let lo = (l.words[(j >> 7) + 2] >> (j & 127)) & 1;
    ((hi << 1) | lo) as u8
}

pub fn lowmask(r: usize) -> u128 {
    if r == 0 { 0 } else if r >= 128 { u128::MAX } else { u128::MAX >> (128 - r) }
}

/// normalize(s): bit j of the returned pair is set  <=>  slot j holds s   (every line, s <= 3, every j < 256)
#[kani::proof]
fn k5_normalize() {
    let l = DataLine { words: kani::any() };
    let s: u8 = kani::any();
    let j: usize = kani::any();
    kani::assume(s <= 3 && j < 256);
    let (w0, w1) = l.normalize(s);
    let b = if j < 128 { (w0 >> j) & 1 } else { (w1 >> (j - 128)) & 1 };
    assert!((b == 1) == (slot(&l, j) == s));
    kani::cover!(b == 1 && j == 255);
}

/// rank_unchecked(s,i) / rank(s,i) = popcount of the characteristic plane of s below i; None outside the domain
#[kani::proof]
fn k5_rank() {
    let l = DataLine { words: kani::any() };
    let s: u8 = kani::any();
    let i: usize = kani::any();
    if s <= 3 && i <= 256 {
        let (w0, w1) = l.normalize(s);
        let exp = (w0 & lowmask(i)).count_ones() as usize
            + (w1 & lowmask(if i > 128 { i - 128 } else { 0 })).count_ones() as usize;
        assert!(unsafe { l.rank_unchecked(s, i) } == exp);
        assert!(l.rank(s, i) == Some(exp));
        kani::cover!(i == 256 && exp == 256);
        kani::cover!(i == 129 && exp == 1);
    } else {
        assert!(l.rank(s, i).is_none());
        kani::cover!(s == 255);
        kani::cover!(i == usize::MAX);
    }
}

/// set_symbol on an empty slot writes symbol & 3 there and leaves the other 255 slots alone;
/// get_unchecked reads the slot.
#[kani::proof]
fn k5_get_set() {
    let mut l = DataLine { words: kani::any() };
    let i: u8 = kani::any();
    let j: usize = kani::any();
    kani::assume(j < 256);
    let sym: u8 = kani::any();
    kani::assume(slot(&l, i as usize) == 0);
    let before = slot(&l, j);
    l.set_symbol(sym, i);
    let after = unsafe { l.get_unchecked(j) };
    assert!(after == slot(&l, j));
    assert!(l.get(j) == Some(after));
    if j == i as usize { assert!(after == sym & 3); } else { assert!(after == before); }
    kani::cover!(j == i as usize && after == 3);
    kani::cover!(j != i as usize && i == 255);
}

/// K12: layout facts and the derived Default (all slots zero)
#[kani::proof]
fn k12_qvector_dataline_layout() {
    assert!(core::mem::size_of::<DataLine>() == 64);
    assert!(core::mem::align_of::<DataLine>() == 64);
    let d = DataLine::default();
    assert!(d.words[0] == 0 && d.words[1] == 0 && d.words[2] == 0 && d.words[3] == 0);
}

/// K10: `as_()` to u8 keeps the two low bits (Euclidean v mod 4) for all 12 primitive integer types
macro_rules! as_harness {
    ($name:ident, $t:ty) => {
        #[kani::proof]
        fn $name() {
            let v: $t = kani::any();
            let b: u8 = AsPrimitive::<u8>::as_(v);
            assert!(b == v as u8);
            assert!((b & 3) as i128 == (v as i128).rem_euclid(4) || core::mem::size_of::<$t>() == 16);
            assert!((b & 3) == ((v & 3) as u8));
        }
    };
}
as_harness!(k10_as_u8_i8, i8);
as_harness!(k10_as_u8_i16, i16);
as_harness!(k10_as_u8_i32, i32);
as_harness!(k10_as_u8_i64, i64);
as_harness!(k10_as_u8_i128, i128);
as_harness!(k10_as_u8_isize, isize);
as_harness!(k10_as_u8_u8, u8);
as_harness!(k10_as_u8_u16, u16);
as_harness!(k10_as_u8_u32, u32);
as_harness!(k10_as_u8_u64, u64);
as_harness!(k10_as_u8_u128, u128);
as_harness!(k10_as_u8_usize, usize);

/// K10b: the conversions the trees rely on are the `as` casts
#[kani::proof]
fn k10_as_primitive_is_as_cast() {
    let a: u64 = kani::any();
    let b: u128 = kani::any();
    let c: u8 = kani::any();
    let n: usize = kani::any();
    assert!(AsPrimitive::<usize>::as_(a) == a as usize);
    assert!(AsPrimitive::<usize>::as_(b) == b as usize);
    assert!(AsPrimitive::<usize>::as_(c) == c as usize);
    assert!(AsPrimitive::<u64>::as_(n) == n as u64);
    assert!(AsPrimitive::<u128>::as_(n) == n as u128);
    assert!(AsPrimitive::<u8>::as_(n) == n as u8);
}

/// bounded stand-in for the generic `extend`/`collect` loop: 3 pushes of a symbolic i16 each
#[kani::proof]
#[kani::unwind(5)]
fn k13_extend_bounded_i16() {
    let vals: [i16; 3] = kani::any();
    let mut b = QVectorBuilder::new();
    b.extend(vals.iter().copied());
    let qv = b.build();
    assert!(qv.len() == 3);
    let j: usize = kani::any();
    kani::assume(j < 3);
    assert!(qv.get(j) == Some((vals[j] & 3) as u8));
    assert!(qv.get(3).is_none());
}

/// K11: QVectorIterator::next over a 1-line quad vector, symbolic cursor (including past the end)
#[kani::proof]
fn k11_qvector_iter() {
    let line = DataLine { words: kani::any() };
    let len: usize = kani::any();
    kani::assume(len <= 256);
    let qv = QVector { data: vec![line].into_boxed_slice(), position: 2 * len };
    let i0: usize = kani::any();
    let mut it = QVectorIterator { i: i0, qv: &qv };
    let r = it.next();
    if i0 < len {
        assert!(r == Some(slot(&line, i0)));
        assert!(it.i == i0 + 1);
    } else {
        assert!(r.is_none());
        assert!(it.i == i0);
        assert!(it.next().is_none());
        kani::cover!(i0 == usize::MAX);
    }
    kani::cover!(i0 == 255 && len == 256);
}
