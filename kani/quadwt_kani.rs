// Kani kernels for src/quadwt/mod.rs: iterator constructors (C12) — i = 0, end = len, for every len
use super::*;
use crate::RSQVector256;

#[kani::proof]
fn k11_qwt_iter_ctor() {
    let n: usize = kani::any();
    let t = QWaveletTree::<u64, RSQVector256, false> { n, n_levels: 0, sigma: 0, qvs: Vec::new(), prefetch_support: None };
    {
        let it = t.iter();
        assert!(it.i == 0 && it.end == n && it.len() == n);
        let it2 = (&t).into_iter();
        assert!(it2.i == 0 && it2.end == n);
    }
    let it3 = t.into_iter();
    assert!(it3.i == 0 && it3.end == n && it3.len() == n);
}
