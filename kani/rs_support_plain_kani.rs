// Kani kernels K7 for src/qvector/rs_qvector/rs_support_plain.rs (packed superblock counters).
use super::*;

/// field b (1..=7) of a packed counter word: 12 bits at (b-1)*12; head: the 44 bits from bit 84
fn field(m: u128, b: usize) -> usize { ((m >> ((b - 1) * 12)) & 0xFFF) as usize }
fn head(m: u128) -> usize { (m >> 84) as usize }

/// new(sbc) stores each superblock counter (< 2^44) in the head and zero in every block field
#[kani::proof]
#[kani::unwind(5)]
fn k7_new() {
    let sbc: [usize; 4] = kani::any();
    kani::assume(sbc[0] < (1 << 44) && sbc[1] < (1 << 44) && sbc[2] < (1 << 44) && sbc[3] < (1 << 44));
    let sb = SuperblockPlain::new(&sbc);
    let s: usize = kani::any();
    kani::assume(s < 4);
    let b: usize = kani::any();
    kani::assume(1 <= b && b <= 7);
    assert!(head(sb.counters[s]) == sbc[s]);
    assert!(field(sb.counters[s], b) == 0);
    assert!(sb.get_superblock_counter(s as u8) == sbc[s]);
    assert!(sb.get_rank(s as u8, 0) == sbc[s]);
    assert!(sb.get_block_counter(s as u8, b) == 0);
    kani::cover!(sbc[3] == (1usize << 44) - 1);
}

/// set_block_counters(b, c) on a word whose field b is still zero: field b := c[s] for each symbol,
/// head and the other six fields unchanged; block 0 is a no-op.
#[kani::proof]
#[kani::unwind(5)]
fn k7_set_block_counters() {
    let mut sb = SuperblockPlain { counters: kani::any() };
    let b: usize = kani::any();
    kani::assume(b < 8);
    let c: [usize; 4] = kani::any();
    kani::assume(c[0] < 4096 && c[1] < 4096 && c[2] < 4096 && c[3] < 4096);
    let s: usize = kani::any();
    kani::assume(s < 4);
    let o: usize = kani::any();
    kani::assume(1 <= o && o <= 7);
    if b > 0 { kani::assume(field(sb.counters[s], b) == 0); }
    let before = sb.counters[s];
    sb.set_block_counters(b, &c);
    let after = sb.counters[s];
    assert!(head(after) == head(before));
    if b > 0 && o == b { assert!(field(after, o) == c[s]); } else { assert!(field(after, o) == field(before, o)); }
    kani::cover!(b == 7 && o == 7);
    kani::cover!(b == 0);
}

/// decoders: get_rank(s,b) = head + (b == 0 ? 0 : field b); get_block_counter; get_superblock_counter
#[kani::proof]
fn k7_get_rank() {
    let sb = SuperblockPlain { counters: kani::any() };
    let s: u8 = kani::any();
    kani::assume(s < 4);
    let b: usize = kani::any();
    kani::assume(b < 8);
    let m = sb.counters[s as usize];
    let exp = head(m) + if b == 0 { 0 } else { field(m, b) };
    assert!(sb.get_rank(s, b) == exp);
    assert!(sb.get_superblock_counter(s) == head(m));
    assert!(sb.get_block_counter(s, b) == if b == 0 { 0 } else { field(m, b) });
    kani::cover!(b == 7);
}

/// block_predecessor(s,t) = (largest b in 0..=7 such that counter_b < t when the fields are
/// non-decreasing, with counter_0 = 0 .. i.e. the last block before the first field >= t), counter of that block
#[kani::proof]
#[kani::unwind(9)]
fn k7_block_predecessor() {
    let sb = SuperblockPlain { counters: kani::any() };
    let s: u8 = kani::any();
    kani::assume(s < 4);
    let t: usize = kani::any();
    let m = sb.counters[s as usize];
    // counters are non-decreasing (wf of a built superblock)
    kani::assume(field(m, 1) <= field(m, 2) && field(m, 2) <= field(m, 3) && field(m, 3) <= field(m, 4)
        && field(m, 4) <= field(m, 5) && field(m, 5) <= field(m, 6) && field(m, 6) <= field(m, 7));
    kani::assume(t >= 1);
    let (b, c) = sb.block_predecessor(s, t);
    assert!(b < 8);
    let cb = if b == 0 { 0 } else { field(m, b) };
    assert!(c == cb);
    assert!(cb < t);
    if b < 7 { assert!(field(m, b + 1) >= t); }
    kani::cover!(b == 7);
    kani::cover!(b == 0);
    kani::cover!(b == 3);
}

/// K12: layout + derived Default
#[kani::proof]
fn k12_superblock_layout() {
    assert!(core::mem::size_of::<SuperblockPlain>() == 64);
    assert!(core::mem::align_of::<SuperblockPlain>() == 64);
    let d = SuperblockPlain::default();
    assert!(d.counters[0] == 0 && d.counters[1] == 0 && d.counters[2] == 0 && d.counters[3] == 0);
}
