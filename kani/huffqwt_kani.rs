// Kani kernels for src/quadwt/huffqwt.rs: iterator constructors (C12)
use super::*;
use crate::RSQVector256;
use std::marker::PhantomData;

#[kani::proof]
fn k11_hqwt_iter_ctor() {
    let n: usize = kani::any();
    let t = HuffQWaveletTree::<u64, RSQVector256, false> {
        n, n_levels: 0, codes_encode: Vec::new(), codes_decode: Vec::new(), qvs: Vec::new(), lens: Vec::new(),
        phantom_data: PhantomData, prefetch_support: None,
    };
    {
        let it = t.iter();
        assert!(it.i == 0 && it.end == n && it.len() == n);
        let it2 = (&t).into_iter();
        assert!(it2.i == 0 && it2.end == n);
    }
    let it3 = t.into_iter();
    assert!(it3.i == 0 && it3.end == n && it3.len() == n);
}
