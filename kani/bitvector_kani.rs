// Kani kernels K6/K9/K11 for src/bitvector/mod.rs (child module of `bitvector`).
use super::*;

pub fn bit(l: &DataLine, j: usize) -> bool { (l.words[j >> 6] >> (j & 63)) & 1 == 1 }

fn lowmask64(r: usize) -> u64 { if r == 0 { 0 } else if r >= 64 { u64::MAX } else { u64::MAX >> (64 - r) } }

/// ones strictly below position i in a line, computed popcount-to-popcount
fn ones_below(l: &DataLine, i: usize) -> usize {
    let mut r = 0usize;
    let mut w = 0;
    while w < 8 {
        let lo = w * 64;
        let m = if i <= lo { 0 } else { lowmask64(i - lo) };
        r += (l.words[w] & m).count_ones() as usize;
        w += 1;
    }
    r
}
fn zeros_below(l: &DataLine, i: usize) -> usize { i - ones_below(l, i) }

/// set_symbol(symbol, i): bit i becomes symbol & 1, the other 511 bits are unchanged
#[kani::proof]
fn k6_set_symbol() {
    let mut l = DataLine { words: kani::any() };
    let i: usize = kani::any();
    let j: usize = kani::any();
    let s: u64 = kani::any();
    kani::assume(i < 512 && j < 512);
    let before = bit(&l, j);
    l.set_symbol(s, i);
    if j == i { assert!(bit(&l, j) == (s & 1 == 1)); } else { assert!(bit(&l, j) == before); }
    assert!(unsafe { l.get_unchecked(j) } == bit(&l, j));
    assert!(l.get(j) == Some(bit(&l, j)));
    kani::cover!(i == 511 && j == 511);
}

#[kani::proof]
#[kani::unwind(9)]
fn k6_counts() {
    let l = DataLine { words: kani::any() };
    assert!(l.n_ones() == ones_below(&l, 512));
    assert!(l.n_zeros() == 512 - ones_below(&l, 512));
    let w: usize = kani::any();
    kani::assume(w < 8);
    assert!(l.get_word(w) == l.words[w]);
}

/// rank1 / rank1_unchecked for every i <= 512; None beyond
#[kani::proof]
#[kani::unwind(9)]
fn k6_rank1() {
    let l = DataLine { words: kani::any() };
    let i: usize = kani::any();
    if i <= 512 {
        assert!(unsafe { l.rank1_unchecked(i) } == ones_below(&l, i));
        assert!(l.rank1(i) == Some(ones_below(&l, i)));
        kani::cover!(i == 512);
        kani::cover!(i == 64 && ones_below(&l, i) == 64);
    } else {
        assert!(l.rank1(i).is_none());
    }
}

/// select1_unchecked(k) for every k below the number of ones: the returned position p holds a one and
/// has exactly k ones below it
#[kani::proof]
#[kani::unwind(9)]
#[kani::stub_verified(select_in_word)]
fn k6_select1() {
    let l = DataLine { words: kani::any() };
    let k: usize = kani::any();
    let n1 = ones_below(&l, 512);
    if k < n1 {
        let p = unsafe { l.select1_unchecked(k) };
        assert!(p < 512);
        assert!(bit(&l, p));
        assert!(ones_below(&l, p) == k);
        assert!(l.select1(k) == Some(p));
        kani::cover!(p == 511);
        kani::cover!(p == 64);
    } else {
        assert!(l.select1(k).is_none());
    }
}

#[kani::proof]
#[kani::unwind(9)]
#[kani::stub_verified(select_in_word)]
fn k6_select0_unchecked() {
    let l = DataLine { words: kani::any() };
    let k: usize = kani::any();
    let n0 = 512 - ones_below(&l, 512);
    kani::assume(k < n0);
    let p = unsafe { l.select0_unchecked(k) };
    assert!(p < 512);
    assert!(!bit(&l, p));
    assert!(zeros_below(&l, p) == k);
    kani::cover!(p == 511);
}

/// K12 layout + derived Default
#[kani::proof]
fn k12_bitvector_dataline_layout() {
    assert!(core::mem::size_of::<DataLine>() == 64);
    assert!(core::mem::align_of::<DataLine>() == 64);
    let d = DataLine::default();
    let w: usize = kani::any();
    kani::assume(w < 8);
    assert!(d.words[w] == 0);
}

/// K9: cast_to_u64_slice returns the words of the lines, in order (<= 2 lines: bounded)
#[kani::proof]
fn k9_cast_to_u64_slice() {
    let lines = [DataLine { words: kani::any() }, DataLine { words: kani::any() }];
    let n: usize = kani::any();
    kani::assume(n <= 2);
    let s = cast_to_u64_slice(&lines[..n]);
    assert!(s.len() == 8 * n);
    kani::cover!(n == 0);
    let j: usize = kani::any();
    kani::assume(j < 8 * n);
    assert!(s[j] == lines[j >> 3].words[j & 7]);
    kani::cover!(n == 2 && j == 15);
}

/// K9: get_bits_slice / get_bit_slice on 3 symbolic words, every in-range (index,len)
#[kani::proof]
fn k9_get_bits_slice() {
    let d: [u64; 3] = kani::any();
    let index: usize = kani::any();
    let len: usize = kani::any();
    kani::assume(1 <= len && len <= 64 && index < 192 && index + len <= 192);
    let r = unsafe { BitVectorMut::get_bits_slice(&d, index, len) };
    let t: usize = kani::any();
    kani::assume(t < 64);
    let got = (r >> t) & 1 == 1;
    if t < len {
        let p = index + t;
        assert!(got == ((d[p >> 6] >> (p & 63)) & 1 == 1));
    } else {
        assert!(!got);
    }
    let q: usize = kani::any();
    kani::assume(q < 192);
    assert!(unsafe { BitVectorMut::get_bit_slice(&d, q) } == ((d[q >> 6] >> (q & 63)) & 1 == 1));
    kani::cover!(len == 64 && index == 128);
    kani::cover!(len == 64 && index == 1);
}

// ---- K11: bit-vector iterators over a 1-line vector (bounded in size), symbolic cursor -------------
fn any_bv1() -> BitVector {
    let line = DataLine { words: kani::any() };
    let n_bits: usize = kani::any();
    kani::assume(n_bits <= 512);
    BitVector { data: vec![line].into_boxed_slice(), n_bits, n_ones: 0 }
}

/// BitVectorIter::next / len for every cursor (including past the end)
#[kani::proof]
fn k11_bitvector_iter() {
    let bv = any_bv1();
    let i0: usize = kani::any();
    let mut it = bv.iter();
    it.i = i0;
    let r = it.next();
    if i0 < bv.n_bits {
        assert!(r == Some(bit(&bv.data[0], i0)));
        assert!(it.i == i0 + 1);
        assert!(it.len() == bv.n_bits - i0 - 1);
    } else {
        assert!(r.is_none());
        assert!(it.i == i0);
        kani::cover!(i0 == usize::MAX);
    }
    kani::cover!(i0 == 511 && bv.n_bits == 512);
}

/// BitVectorIntoIter::next / len: never moves past the end, len() is 0 after exhaustion
#[kani::proof]
fn k11_bitvector_into_iter() {
    let bv = any_bv1();
    let n = bv.n_bits;
    let line = bv.data[0];
    let i0: usize = kani::any();
    kani::assume(i0 <= n); // invariant: starts at 0, next() keeps i <= n_bits
    let mut it = bv.into_iter();
    it.i = i0;
    let r = it.next();
    if i0 < n {
        assert!(r == Some(bit(&line, i0)));
        assert!(it.i == i0 + 1);
        assert!(it.len() == n - i0 - 1);
    } else {
        assert!(r.is_none());
        assert!(it.i == i0);
        assert!(it.len() == 0);
        assert!(it.next().is_none());
        assert!(it.len() == 0);
    }
    assert!(it.i <= n);
    kani::cover!(i0 == n && n == 512);
}

/// position iterators: `with_pos(pos).next()` on 3 symbolic words = the first position >= pos that holds
/// BIT and is < n_bits, None otherwise; and None is sticky
fn first_from(d: &[u64; 3], n_bits: usize, pos: usize, want: bool) -> Option<usize> {
    let mut w = 0;
    while w < 3 {
        let word = if want { d[w] } else { !d[w] };
        let lo = w * 64;
        let masked = if pos >= lo + 64 { 0 } else if pos <= lo { word } else { word & (u64::MAX << (pos - lo)) };
        if masked != 0 {
            let p = lo + masked.trailing_zeros() as usize;
            return if p < n_bits { Some(p) } else { None };
        }
        w += 1;
    }
    None
}

#[kani::proof]
#[kani::unwind(5)]
fn k11_positions_ones() {
    let d: [u64; 3] = kani::any();
    let n_bits: usize = kani::any();
    kani::assume(n_bits <= 192);
    let pos: usize = kani::any();
    kani::assume(pos <= 200);
    let mut it = BitVectorBitPositionsIter::<true>::with_pos(&d, n_bits, pos);
    let r = it.next();
    assert!(r == first_from(&d, n_bits, pos, true));
    if r.is_none() { assert!(it.next().is_none()); }
    kani::cover!(r == Some(191));
    kani::cover!(r.is_none() && pos < n_bits);
}

#[kani::proof]
#[kani::unwind(5)]
fn k11_positions_zeros() {
    let d: [u64; 3] = kani::any();
    let n_bits: usize = kani::any();
    kani::assume(n_bits <= 192);
    let pos: usize = kani::any();
    kani::assume(pos <= 200);
    let mut it = BitVectorBitPositionsIter::<false>::with_pos(&d, n_bits, pos);
    let r = it.next();
    assert!(r == first_from(&d, n_bits, pos, false));
    if r.is_none() { assert!(it.next().is_none()); }
    kani::cover!(r == Some(130));
}

/// two consecutive next() calls from the start: the second result is the first position after the first
#[kani::proof]
#[kani::unwind(5)]
fn k11_positions_step() {
    let d: [u64; 3] = kani::any();
    let n_bits: usize = kani::any();
    kani::assume(n_bits <= 192);
    let mut it = BitVectorBitPositionsIter::<true>::new(&d, n_bits);
    let a = it.next();
    assert!(a == first_from(&d, n_bits, 0, true));
    if let Some(p) = a {
        let b = it.next();
        assert!(b == first_from(&d, n_bits, p + 1, true));
        kani::cover!(b == Some(p + 64));
    }
}
