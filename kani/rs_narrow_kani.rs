// Kani kernels for src/bitvector/rs_narrow.rs
use super::*;

/// the derived Default of RSNarrow is field-wise: empty bit vector, empty arrays (discharges the trusted
/// `<RSNarrow as Default>::default` specification of the Verus unit rsnarrow; concrete execution, no symbolic input)
#[kani::proof]
fn k12_rsnarrow_default() {
    let r = RSNarrow::default();
    assert!(r.bv.len() == 0 && r.bv.count_ones() == 0);
    assert!(r.block_rank_pairs.len() == 0);
    assert!(r.select_samples[0].len() == 0 && r.select_samples[1].len() == 0);
}
