// Kani kernels for src/utils/mod.rs (overlay module: child of `utils`, sees its private items).
use super::*;

pub fn lowmask64(r: u32) -> u64 { if r == 0 { 0 } else if r >= 64 { u64::MAX } else { u64::MAX >> (64 - r) } }
pub fn lowmask128(r: u32) -> u128 { if r == 0 { 0 } else if r >= 128 { u128::MAX } else { u128::MAX >> (128 - r) } }

/// C17: select_in_word(w,k) is the position of the (k+1)-th set bit for k < popcount, 64 otherwise
pub fn siw_post(w: u64, k: u64, r: u32) -> bool {
    if (w.count_ones() as u64) > k {
        r < 64 && (w >> r) & 1 == 1 && (w & lowmask64(r)).count_ones() as u64 == k
    } else {
        r == 64
    }
}
pub fn siw128_post(w: u128, k: u64, r: u32) -> bool {
    if (w.count_ones() as u64) > k {
        r < 128 && (w >> r) & 1 == 1 && (w & lowmask128(r)).count_ones() as u64 == k
    } else {
        r == 128
    }
}

#[kani::proof_for_contract(select_in_word)]
fn k1_select_in_word() {
    let w: u64 = kani::any();
    let k: u64 = kani::any();
    let r = select_in_word(w, k);
    kani::cover!(r == 64);
    kani::cover!(r == 63);
}

#[kani::proof_for_contract(select_in_word_u128)]
#[kani::stub_verified(select_in_word)]
fn k2_select_in_word_u128() {
    let w: u128 = kani::any();
    let k: u64 = kani::any();
    let r = select_in_word_u128(w, k);
    kani::cover!(r == 128);
    kani::cover!(r == 127);
}

/// the same contract without relying on the callee's contract (no stub)
#[kani::proof_for_contract(select_in_word_u128)]
fn k2_select_in_word_u128_unstubbed() {
    let w: u128 = kani::any();
    let k: u64 = kani::any();
    select_in_word_u128(w, k);
}

macro_rules! msb_harness {
    ($name:ident, $t:ty) => {
        #[kani::proof]
        fn $name() {
            let v: $t = kani::any();
            let r = msb(v);
            if v == 0 {
                assert!(r == 0);
            } else {
                assert!((r as usize) < core::mem::size_of::<$t>() * 8);
                assert!(v >> r == 1);
            }
            kani::cover!(v != 0 && r == (core::mem::size_of::<$t>() * 8 - 1) as u32);
        }
    };
}
msb_harness!(k3_msb_u8, u8);
msb_harness!(k3_msb_u16, u16);
msb_harness!(k3_msb_u32, u32);
msb_harness!(k3_msb_u64, u64);
msb_harness!(k3_msb_u128, u128);
msb_harness!(k3_msb_usize, usize);

fn popcnt_oracle(d: &[u64; 9], len: usize, n: usize) -> usize {
    let mut r = 0usize;
    let mut i = 0;
    while i < 9 {
        if i < len && i < n { r += d[i].count_ones() as usize; }
        i += 1;
    }
    r
}

macro_rules! popcnt_harness {
    ($name:ident, $n:expr) => {
        #[kani::proof]
        #[kani::unwind(10)]
        fn $name() {
            let d: [u64; 9] = kani::any();
            let len: usize = kani::any();
            kani::assume(len <= 9);
            let r = popcnt_wide::<$n>(&d[..len]);
            assert!(r == popcnt_oracle(&d, len, $n));
            kani::cover!(len == 9);
            kani::cover!(len < $n);
        }
    };
}
/// N = 0: no word is counted, whatever the slice (the macro's cover `len < N` cannot be reached for N = 0)
#[kani::proof]
#[kani::unwind(10)]
fn k4_popcnt_wide_0() {
    let d: [u64; 9] = kani::any();
    let len: usize = kani::any();
    kani::assume(len <= 9);
    let r = popcnt_wide::<0>(&d[..len]);
    assert!(r == 0);
    kani::cover!(len == 9);
    kani::cover!(len == 0);
}
popcnt_harness!(k4_popcnt_wide_1, 1);
popcnt_harness!(k4_popcnt_wide_2, 2);
popcnt_harness!(k4_popcnt_wide_4, 4);
popcnt_harness!(k4_popcnt_wide_8, 8);
