// Kani kernels K11 (WTIterator state machine) and C18 (Send + Sync) — child module of the crate root.
use super::*;
use std::marker::PhantomData;

/// Stateless stand-in for a wavelet tree: element i is f(i).  It plays the role of the
/// `AccessUnsigned::get_unchecked` contract (result = S[i]) so that the iterator's own logic is
/// checked over ALL cursor pairs (i, end) of usize, with no bound.
pub struct Mock { k: u64, c: u64 }
impl Mock { fn f(&self, i: usize) -> u64 { ((i as u64) ^ self.c).rotate_left((self.k & 63) as u32) } }
impl AccessUnsigned for Mock {
    type Item = u64;
    fn get(&self, i: usize) -> Option<u64> { Some(self.f(i)) }
    unsafe fn get_unchecked(&self, i: usize) -> u64 { self.f(i) }
}
impl AsRef<Mock> for Mock { fn as_ref(&self) -> &Mock { self } }

fn any_iter() -> WTIterator<u64, Mock, Mock> {
    let i: usize = kani::any();
    let end: usize = kani::any();
    kani::assume(i <= end); // invariant of every iterator built by iter()/into_iter() (i = 0, end = len) and preserved below
    WTIterator { i, end, qwt: Mock { k: kani::any(), c: kani::any() }, _phantom: PhantomData }
}

/// next(): yields S[i] and advances the front cursor; at exhaustion returns None and changes nothing;
/// len() is the number of elements not yet yielded, before and after
#[kani::proof]
fn k11_wtiterator_next() {
    let mut it = any_iter();
    let (i0, e0) = (it.i, it.end);
    let l0 = it.len();
    assert!(l0 == e0 - i0);
    let r = it.next();
    if i0 < e0 {
        assert!(r == Some(it.qwt.f(i0)));
        assert!(it.i == i0 + 1 && it.end == e0);
        assert!(it.len() == l0 - 1);
    } else {
        assert!(r.is_none());
        assert!(it.i == i0 && it.end == e0);
        assert!(it.len() == 0);
        assert!(it.next().is_none() && it.next_back().is_none() && it.len() == 0);
    }
    assert!(it.i <= it.end);
    kani::cover!(i0 == usize::MAX - 1 && e0 == usize::MAX);
    kani::cover!(i0 == e0);
}

/// next_back(): yields S[end-1] and retreats the back cursor; same exhaustion behaviour
#[kani::proof]
fn k11_wtiterator_next_back() {
    let mut it = any_iter();
    let (i0, e0) = (it.i, it.end);
    let l0 = it.len();
    let r = it.next_back();
    if i0 < e0 {
        assert!(r == Some(it.qwt.f(e0 - 1)));
        assert!(it.i == i0 && it.end == e0 - 1);
        assert!(it.len() == l0 - 1);
    } else {
        assert!(r.is_none());
        assert!(it.i == i0 && it.end == e0);
        assert!(it.len() == 0);
    }
    assert!(it.i <= it.end);
    kani::cover!(i0 == 0 && e0 == usize::MAX);
    kani::cover!(i0 == e0);
}

/// C18: every query structure is Send + Sync (decided by rustc's trait solver when this module compiles)
fn assert_send_sync<T: Send + Sync>() {}
#[kani::proof]
fn k18_send_sync() {
    assert_send_sync::<BitVector>();
    assert_send_sync::<BitVectorMut>();
    assert_send_sync::<QVector>();
    assert_send_sync::<RSQVector256>();
    assert_send_sync::<RSQVector512>();
    assert_send_sync::<RSNarrow>();
    assert_send_sync::<RSWide>();
    assert_send_sync::<DArray<false>>();
    assert_send_sync::<DArray<true>>();
    assert_send_sync::<QWT256<u8>>();
    assert_send_sync::<QWT512<u64>>();
    assert_send_sync::<QWT256Pfs<u32>>();
    assert_send_sync::<QWT512Pfs<u128>>();
    assert_send_sync::<HQWT256<u8>>();
    assert_send_sync::<HQWT512<u16>>();
    assert_send_sync::<HQWT256Pfs<usize>>();
    assert_send_sync::<HQWT512Pfs<u64>>();
    assert_send_sync::<WT<u64>>();
    assert_send_sync::<HWT<u8>>();
}
