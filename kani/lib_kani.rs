// Kani kernels K11 (WTIterator state machine) and C18 (Send + Sync) — child module of the crate root.
use super::*;
use std::marker::PhantomData;

/// Stateless stand-in for a wavelet tree: element i is f(i).  It plays the role of the
/// `AccessUnsigned::get_unchecked` contract (result = S[i]) so that the iterator's own logic is
/// checked over ALL cursor pairs (i, end) of usize, with no bound.
pub struct Mock { k: u64, c: u64 }
impl Mock { fn f(&self, i: usize) -> u64 { ((i as u64) ^ self.c).rotate_left((self.k & 63) as u32) } }
impl AccessUnsigned for Mock {
    type Item = u64;
    fn get(&self, i: usize) -> Option<u64> { Some(self.f(i)) }
    unsafe fn get_unchecked(&self, i: usize) -> u64 { self.f(i) }
}
impl AsRef<Mock> for Mock { fn as_ref(&self) -> &Mock { self } }

fn any_iter() -> WTIterator<u64, Mock, Mock> {
    let i: usize = kani::any();
    let end: usize = kani::any();
    kani::assume(i <= end); // invariant of every iterator built by iter()/into_iter() (i = 0, end = len) and preserved below
    WTIterator { i, end, qwt: Mock { k: kani::any(), c: kani::any() }, _phantom: PhantomData }
}

/// next(): yields S[i] and advances the front cursor; at exhaustion returns None and changes nothing;
/// len() is the number of elements not yet yielded, before and after
#[kani::proof]
fn k11_wtiterator_next() {
    let mut it = any_iter();
    let (i0, e0) = (it.i, it.end);
    let l0 = it.len();
    assert!(l0 == e0 - i0);
    let r = it.next();
    if i0 < e0 {
        assert!(r == Some(it.qwt.f(i0)));
        assert!(it.i == i0 + 1 && it.end == e0);
        assert!(it.len() == l0 - 1);
    } else {
        assert!(r.is_none());
        assert!(it.i == i0 && it.end == e0);
        assert!(it.len() == 0);
        assert!(it.next().is_none() && it.next_back().is_none() && it.len() == 0);
    }
    assert!(it.i <= it.end);
    kani::cover!(i0 == usize::MAX - 1 && e0 == usize::MAX);
    kani::cover!(i0 == e0);
}

/// next_back(): yields S[end-1] and retreats the back cursor; same exhaustion behaviour
#[kani::proof]
fn k11_wtiterator_next_back() {
    let mut it = any_iter();
    let (i0, e0) = (it.i, it.end);
    let l0 = it.len();
    let r = it.next_back();
    if i0 < e0 {
        assert!(r == Some(it.qwt.f(e0 - 1)));
        assert!(it.i == i0 && it.end == e0 - 1);
        assert!(it.len() == l0 - 1);
    } else {
        assert!(r.is_none());
        assert!(it.i == i0 && it.end == e0);
        assert!(it.len() == 0);
    }
    assert!(it.i <= it.end);
    kani::cover!(i0 == 0 && e0 == usize::MAX);
    kani::cover!(i0 == e0);
}

// (the Send + Sync obligations moved to a rustc-level check, replay/src/bin/sendsync.rs: here a structure that loses
// an auto trait would stop the whole overlay from compiling)
