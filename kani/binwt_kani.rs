// Kani kernels for src/binwt/mod.rs: iterator constructors (C12)
use super::*;
use crate::RSWide;
use std::marker::PhantomData;

fn mk<const C: bool>(n: usize) -> WaveletTree<u64, RSWide, C> {
    WaveletTree { n, n_levels: 0, sigma: None, codes_encode: None, codes_decode: None, bvs: Vec::new(), lens: Vec::new(), phantom_data: PhantomData }
}

#[kani::proof]
fn k11_wt_iter_ctor() {
    let n: usize = kani::any();
    let t = mk::<false>(n);
    {
        let it = t.iter();
        assert!(it.i == 0 && it.end == n && it.len() == n);
        let it2 = (&t).into_iter();
        assert!(it2.i == 0 && it2.end == n);
    }
    let it3 = t.into_iter();
    assert!(it3.i == 0 && it3.end == n && it3.len() == n);
    let h = mk::<true>(n);
    let it4 = h.into_iter();
    assert!(it4.i == 0 && it4.end == n);
}
