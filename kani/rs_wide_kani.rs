// Kani kernels / bounded stand-ins for src/bitvector/rs_wide.rs
use super::*;
use crate::bitvector::BitVectorMut;

fn lowmask64(r: usize) -> u64 { if r == 0 { 0 } else if r >= 64 { u64::MAX } else { u64::MAX >> (64 - r) } }

/// K8: decode of the packed metadata word: superblock_rank = top 44 bits; sub_block_rank(j*8+l) adds field l
#[kani::proof]
fn k8_rswide_decode() {
    let meta: u128 = kani::any();
    let rs = RSWide { bv: BitVector::default(), superblock_metadata: vec![meta].into_boxed_slice(), select_samples: [Box::new([]), Box::new([])], n_zeros: 0 };
    assert!(rs.superblock_rank(0) == (meta >> 84) as usize);
    let l: usize = kani::any();
    kani::assume(l < 8);
    let exp = (meta >> 84) as usize + if l == 0 { 0 } else { ((meta >> ((7 - l) * 12)) & 0xFFF) as usize };
    assert!(rs.sub_block_rank(l) == exp);
    kani::cover!(l == 7);
}

// (the bounded one-line stand-in b6_rswide_one_line was removed: RSWide is proved by the Verus unit `rswide`, and the
// stand-in exceeded the CBMC time limit)

/// the derived Default of RSWide is field-wise: empty bit vector, empty arrays, n_zeros = 0 (discharges the trusted
/// `<RSWide as Default>::default` specification of the Verus unit rswide; concrete execution, no symbolic input)
#[kani::proof]
fn k12_rswide_default() {
    let r = RSWide::default();
    assert!(r.bv.len() == 0 && r.bv.count_ones() == 0);
    assert!(r.n_zeros == 0);
    assert!(r.superblock_metadata.len() == 0);
    assert!(r.select_samples[0].len() == 0 && r.select_samples[1].len() == 0);
}
