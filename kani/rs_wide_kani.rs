// Kani kernels / bounded stand-ins for src/bitvector/rs_wide.rs
use super::*;
use crate::bitvector::BitVectorMut;

fn lowmask64(r: usize) -> u64 { if r == 0 { 0 } else if r >= 64 { u64::MAX } else { u64::MAX >> (64 - r) } }

/// K8: decode of the packed metadata word: superblock_rank = top 44 bits; sub_block_rank(j*8+l) adds field l
#[kani::proof]
fn k8_rswide_decode() {
    let meta: u128 = kani::any();
    let rs = RSWide { bv: BitVector::default(), superblock_metadata: vec![meta].into_boxed_slice(), select_samples: [Box::new([]), Box::new([])], n_zeros: 0 };
    assert!(rs.superblock_rank(0) == (meta >> 84) as usize);
    let l: usize = kani::any();
    kani::assume(l < 8);
    let exp = (meta >> 84) as usize + if l == 0 { 0 } else { ((meta >> ((7 - l) * 12)) & 0xFFF) as usize };
    assert!(rs.sub_block_rank(l) == exp);
    kani::cover!(l == 7);
}

/// BOUNDED stand-in (C06): RSWide over a bit vector of at most 1 line (512 bits, every content, every length)
#[kani::proof]
#[kani::unwind(10)]
fn b6_rswide_one_line() {
    let words: [u64; 8] = kani::any();
    let n: usize = kani::any();
    kani::assume(n <= 512 && n >= 1);
    let mut bvm = BitVectorMut::new();
    let mut w = 0;
    while w < 8 {
        let lo = w * 64;
        if lo < n {
            let len = if n - lo >= 64 { 64 } else { n - lo };
            bvm.append_bits(words[w] & lowmask64(len), len);
        }
        w += 1;
    }
    let rs = RSWide::new(bvm.into());
    let i: usize = kani::any();
    kani::assume(i <= n + 1);
    let mut exp = 0usize;
    let mut w = 0;
    while w < 8 {
        let lo = w * 64;
        let upto = if i > n { 0 } else if i <= lo { 0 } else if i - lo >= 64 { 64 } else { i - lo };
        let valid = if n <= lo { 0 } else if n - lo >= 64 { 64 } else { n - lo };
        exp += (words[w] & lowmask64(valid) & lowmask64(upto)).count_ones() as usize;
        w += 1;
    }
    if i <= n { assert!(rs.rank1(i) == Some(exp)); assert!(rs.rank0(i) == Some(i - exp)); } else { assert!(rs.rank1(i).is_none()); }
}
