#!/usr/bin/env python3
"""Entry point of the checks registered in MANIFEST.json.

    python3 check.py <Cxx> [--tier quick|thorough]

Exit 0: every obligation serving the property was discharged on /repo's
        current working tree (known findings are printed, not counted).
Exit 1: at least one obligation failed semantically; a line
        `VIOLATION property=<id> replay=<path>` is printed per obligation.
Exit 2: inconclusive (lost anchor, unsupported construct, resource limit...).
"""
import argparse
import concurrent.futures as cf
import hashlib
import json
import os
import re
import shutil
import subprocess
import sys
import tempfile
import time

VERIF = os.path.dirname(os.path.abspath(__file__))
# evidence directory; only the seeded-change runner redirects it (so that runs on a changed copy do not overwrite the evidence of /repo)
EVDIR = os.environ.get("VERIF_EVIDENCE_DIR") or os.path.join(VERIF, "evidence")
sys.path.insert(0, os.path.join(VERIF, "tools"))
import vx  # noqa: E402
import kx  # noqa: E402
import static_checks  # noqa: E402

REPO = vx.REPO
CACHE = os.path.join(VERIF, ".cache")
TIERS = {"quick": ("quick",), "thorough": ("quick", "thorough")}


def sh(cmd, **kw):
    return subprocess.run(cmd, shell=True, capture_output=True, text=True, **kw)


def tool_versions():
    return {"verus": sh("verus --version").stdout.strip().split("\n")[0:2],
            "kani": sh("cargo kani --version").stdout.strip()}


def unit_props(units):
    """props served by each unit = union of props= on its items (scan)."""
    out = {}
    for name, u in units.items():
        props = set()
        seen = set()

        def scan(path):
            if path in seen:
                return
            seen.add(path)
            for ln in open(path):
                if ln.startswith("//@include "):
                    scan(os.path.join(VERIF, ln.split(None, 1)[1].strip()))
                m = re.search(r"\bprops=(\S+)", ln) if ln.startswith("//@item") else None
                if m:
                    props.update(m.group(1).split(","))
        scan(os.path.join(VERIF, "contracts", u["template"] + ".vrs"))
        out[name] = props
    return out


def run_unit_cached(unit, seed, scratch):
    u = vx.load_units()[unit]
    tpl = os.path.join(VERIF, "contracts", u["template"] + ".vrs")
    text, items = vx.expand(tpl, u.get("defines"))
    vx.check_scope_baseline(items)   # functions added to a covered trait impl: inconclusive (not part of the cached text)
    key = hashlib.sha256(("vx1|%s|%d|" % (unit, seed)).encode() + text.encode()).hexdigest()[:32]
    cp = os.path.join(CACHE, "vx", key + ".json")
    if os.path.exists(cp) and not os.environ.get("VERIF_NOCACHE"):
        try:
            r = json.load(open(cp))
            r["cached"] = True
            return r
        except Exception:
            pass
    wd = tempfile.mkdtemp(prefix="vx-%s-" % unit, dir=scratch)
    try:
        r = vx.verify_unit(unit, wd, seed)
        if seed and r.get("failures"):
            # VERIF_SEED also seeds the SMT solver; a failed obligation must not depend on that seed: confirm with the
            # default seed and keep only the failures both runs report (a real failure shows under every seed)
            wd2 = tempfile.mkdtemp(prefix="vx-%s-s0-" % unit, dir=scratch)
            try:
                r0 = vx.verify_unit(unit, wd2, 0)
            finally:
                shutil.rmtree(wd2, ignore_errors=True)
            sig = lambda f: (f.get("item"), f.get("msg"), (f.get("source") or "").strip())
            keep = {sig(f) for f in r0.get("failures", [])}
            dropped = [f for f in r["failures"] if sig(f) not in keep]
            r["failures"] = [f for f in r["failures"] if sig(f) in keep]
            r["seed_dependent_failures_dropped"] = len(dropped)
    finally:
        shutil.rmtree(wd, ignore_errors=True)
    r["cached"] = False
    os.makedirs(os.path.dirname(cp), exist_ok=True)
    tmp = cp + ".%d.tmp" % os.getpid()
    json.dump(r, open(tmp, "w"))
    os.replace(tmp, cp)
    return r


# bounded fallback (see main): Verus unit template -> differential suite of /verif/replay, and what a suite can witness
UNIT_SUITE = {"utils": "utils", "qvector": "qvector", "qwt": "qwt", "bitvector": "bitvector", "wt": "wt", "rsq": "rsq",
              "rswide": "rsbin", "rsnarrow": "rsbin", "darray": "darray", "prefetch": "qwt"}
SUITE_PROPS = {"utils": ["C17"], "qvector": ["C13", "C10", "C12", "C04", "C19"], "qwt": ["C01", "C09", "C10", "C12", "C04"],
               "bitvector": ["C08", "C10", "C12", "C04"], "wt": ["C03", "C10", "C12", "C04"], "rsq": ["C05", "C10", "C04"],
               "rsbin": ["C06", "C10", "C04"], "darray": ["C07", "C10", "C04"]}
SUITE_FILE = {"hqwt": "src/quadwt/huffqwt.rs", "utils": "src/utils/mod.rs", "qvector": "src/qvector/mod.rs", "qwt": "src/quadwt/mod.rs", "bitvector": "src/bitvector/mod.rs",
              "wt": "src/binwt/mod.rs", "rsq": "src/qvector/rs_qvector.rs", "rsbin": "src/bitvector/rs_wide.rs", "darray": "src/darray/mod.rs"}


# bounded differential exploration run with every check (labelled bounded): which suites of /verif/replay speak about a property
PROP_SUITES = {"C01": ["qwt"], "C03": ["wt"], "C04": ["utils", "qvector", "bitvector", "qwt", "wt", "hqwt", "rsq", "rsbin", "darray"],
               "C05": ["rsq"], "C06": ["rsbin"], "C07": ["darray"], "C08": ["bitvector"], "C09": ["qwt", "hqwt"],
               "C10": ["qvector", "bitvector", "qwt", "wt", "hqwt", "rsq", "rsbin", "darray"], "C12": ["qvector", "bitvector", "qwt", "wt", "hqwt"],
               "C13": ["qvector"], "C17": ["utils"], "C19": ["qvector", "bitvector", "qwt", "wt", "hqwt", "rsq", "rsbin", "darray"]}
DIFF_SECONDS = {"quick": 10, "thorough": 60}


def differential_obligations(prop, tier, seed):
    import replay_search
    suites = PROP_SUITES.get(prop, [])
    out = []
    if not suites:
        return out
    secs = int(os.environ.get("VERIF_DIFF_SECONDS", DIFF_SECONDS[tier]))
    with cf.ThreadPoolExecutor(max_workers=len(suites)) as ex:
        futs = {su: ex.submit(replay_search.run_suite, su, secs, seed) for su in suites}
        if prop == "C09":
            # C09 quantifies over the `prefetch` cargo feature on and off: the same suites on a build without it
            for su in list(suites):
                futs[su + "@no-prefetch-feature"] = ex.submit(replay_search.run_suite, su, secs, seed, True)
            suites = suites + [su + "@no-prefetch-feature" for su in suites]
        if prop in ("C10", "C04"):
            # C10 / C04 speak of builds with and without debug assertions (and overflow checks): the same suites on a plain release build
            # (no overflow checks, no debug assertions); a panic-only difference shows in the first kind, a silently
            # wrong value guarded by a debug assertion in the second
            for su in list(suites):
                futs[su + "@plain-release"] = ex.submit(replay_search.run_suite, su, secs, seed, False, True)
            suites = suites + [su + "@plain-release" for su in suites]
        for su in suites:
            try:
                r = futs[su].result()
            except Exception as e:  # noqa: BLE001
                r = {"suite": su, "built": False, "found": False, "note": "differential run unavailable: %s" % e}
            o = {"id": "bounded:differential:%s" % su, "engine": "differential replay of the real crate", "kind": "bounded",
                 "bound": "%d s of small / random inputs against a naive oracle, seed %d (public API incl. the functions outside the verified set)" % (secs, seed),
                 "ok": not r.get("found"), "function": "suite %s" % su, "file": SUITE_FILE.get(su.split("@")[0], "src/"), "skipped": not r.get("built", True),
                 "iterations": r.get("iterations"), "seconds": secs}
            if r.get("found"):
                o["failures"] = [{"msg": "%s: %s observed %s, expected %s" % (r.get("structure"), r.get("call"), r.get("observed"), r.get("expected")),
                                  "source": str(r.get("input", ""))[:300]}]
                r["input_found"] = True
                r["how"] = "differential run of the real crate (cargo build --release, overflow checks and debug assertions on) against a naive oracle"
                o["witness"] = r
            out.append(o)
    return out


def load_known():
    p = os.path.join(VERIF, "known_findings.json")
    if not os.path.exists(p):
        return {"findings": [], "fixed": []}
    return json.load(open(p))


def finding_matches(kf, prop, ob, fail):
    """A known finding is identified by property + obligation id + a substring
    of the failing clause/source line, so that a different violation of the
    same property (or a different clause of the same function) still fires."""
    if prop not in kf.get("properties", [kf.get("property")]):
        return False
    # the same repository item may be verified in several units (included contracts): match on the item
    if kf["obligation"] != ob and not ob.endswith(":" + kf.get("item", "\0")):
        return False
    needle = kf.get("clause_contains", "")
    return needle in (fail.get("source", "") + " " + fail.get("msg", ""))


def main():
    ap = argparse.ArgumentParser()
    ap.add_argument("prop")
    ap.add_argument("--tier", default=os.environ.get("VERIF_TIER", "quick"), choices=["quick", "thorough"])
    ap.add_argument("--jobs", type=int, default=int(os.environ.get("VERIF_JOBS", "8")))
    a = ap.parse_args()
    prop = a.prop
    tier = a.tier
    seed = int(os.environ.get("VERIF_SEED", "0") or 0)
    t0 = time.time()
    pm = json.load(open(os.path.join(VERIF, "properties_map.json")))
    if prop not in pm:
        print("property %s is not claimed (see MANIFEST.json not_applicable)" % prop)
        return 2
    conf = pm[prop]
    scratch = os.environ.get("VERIF_SCRATCH") or tempfile.mkdtemp(prefix="qwt-verif-", dir="/dev/shm")
    own_scratch = not os.environ.get("VERIF_SCRATCH")
    os.makedirs(scratch, exist_ok=True)
    obligations = []   # dicts
    inconclusive = []
    unreached_units = []   # Verus units whose (changed) code the verifier could not take: bounded fallback below
    trusted = set()
    fidelity = []
    cmds = []
    solver_ms = 0
    try:
        units = vx.load_units()
        uprops = unit_props(units)
        # a unit serves the properties listed for it in units.json; within the unit the obligations of a
        # property are the items annotated with it
        sel_units = [n for n, u in units.items() if prop in u.get("props", []) and prop in uprops[n]
                     and u.get("tier", "quick") in TIERS[tier]]
        # ---- Verus units, in parallel
        results = {}
        with cf.ThreadPoolExecutor(max_workers=a.jobs) as ex:
            futs = {ex.submit(run_unit_cached, n, seed, scratch): n for n in sel_units}
            # ---- Kani harnesses (own pool inside kx)
            kfut = ex.submit(kx.run_for_property, prop, tier, scratch, seed)
            for f in cf.as_completed(list(futs)):
                n = futs[f]
                try:
                    results[n] = f.result()
                except vx.Inconclusive as e:
                    inconclusive.append("verus unit %s: %s" % (n, e))
                    unreached_units.append((n, str(e)))
            try:
                kres = kfut.result()
            except kx.Inconclusive as e:
                inconclusive.append("kani: %s" % e)
                kres = {"harnesses": [], "trusted": [], "cmd": "", "wall_s": 0}
        for n in sel_units:
            r = results.get(n)
            if r is None:
                continue
            cmds.append(r["cmd"])
            solver_ms += r.get("smt_ms") or 0
            for t in r["trusted"]:
                trusted.add("verus[%s]: %s" % (n, re.sub(r" \(generated line \d+\)", "", t)))
            failed_fn_names = {k.split("::")[-1] for k, v in r["functions"].items() if not v["success"]}
            orphan = [f for f in r["failures"] if f["item"] is None]
            if orphan:
                inconclusive.append("verus unit %s: a specification lemma failed (not a code obligation): %s | %s"
                                    % (n, orphan[0]["msg"], orphan[0]["source"]))
            for it in r["items"]:
                if it["kind"] not in ("code", "corollary"):
                    continue
                m = re.search(r"\bfn\s+(\w+)\s*$", it["item"])
                if not m:
                    continue   # struct / const / trait declarations: no obligation of their own
                if prop not in it["props"]:
                    continue
                oid = "verus:%s:%s::%s" % (n, it["file"], it["item"])
                fails = [f for f in r["failures"] if (it["file"] + " :: " + it["item"]) in f.get("items", [f["item"]])]
                ok = not fails
                obligations.append({
                    "id": oid, "engine": "verus/z3", "kind": "proved", "ok": ok,
                    "function": it["item"], "file": it["file"], "repo_lines": it["repo_lines"],
                    "sha256": it["sha256"], "hunks": len(it["hunks"]),
                    "differs_from_template": it["differs_from_template"],
                    "failures": fails,
                })
            fidelity.append({"unit": n, "items": [
                {k: it[k] for k in ("file", "item", "repo_lines", "sha256", "tokens", "hunks", "renamed_tokens", "differs_from_template", "local_renames") if k in it}
                for it in r["items"]]})
        for h in kres["harnesses"]:
            if h.get("inconclusive"):
                inconclusive.append("kani: " + h["inconclusive"])
            obligations.append(h)
            solver_ms += int(h.get("time_s", 0) * 1000)
        for t in kres["trusted"]:
            trusted.add("kani: " + t)
        for so in static_checks.for_property(prop):
            if so.get("inconclusive"):
                inconclusive.append("static: " + so["inconclusive"])
            obligations.append(so)
        for do in differential_obligations(prop, tier, seed):
            obligations.append(do)
        if kres.get("cmd"):
            cmds.append(kres["cmd"])
    except vx.Inconclusive as e:
        inconclusive.append(str(e))
    finally:
        if own_scratch:
            shutil.rmtree(scratch, ignore_errors=True)

    # ---- vacuity guard: the obligation set must be the registered one
    reg_path = os.path.join(VERIF, "obligations.json")
    reg = json.load(open(reg_path)) if os.path.exists(reg_path) else {}
    want = set(reg.get(prop, {}).get(tier, []))
    have = {o["id"] for o in obligations}
    if os.environ.get("VERIF_FREEZE"):
        reg.setdefault(prop, {})[tier] = sorted(have)
        json.dump(reg, open(reg_path, "w"), indent=1, sort_keys=True)
        want = have
    if not inconclusive:
        if not have:
            inconclusive.append("no obligation was generated for %s" % prop)
        elif want and want - have:
            inconclusive.append("obligations missing w.r.t. obligations.json: %s" % sorted(want - have)[:3])
        elif not want:
            inconclusive.append("property has no registered obligations (run with VERIF_FREEZE=1 once)")

    # ---- verdict
    known = load_known()
    violations = []
    known_hits = []
    for o in obligations:
        if o["ok"] or o.get("inconclusive"):
            continue
        fl = o.get("failures") or [{"msg": o.get("msg", "failed"), "source": ""}]
        # a contract clause may be marked `clause-props=Cxx,Cyy` in the template: its failure concerns only those properties
        # (e.g. a purely functional clause of a function that also serves the safety property C04)
        fl = [f for f in fl if not (re.search(r"clause-props=([A-Z0-9,]+)", f.get("source", "") or "")
                                    and prop not in re.search(r"clause-props=([A-Z0-9,]+)", f.get("source", "")).group(1).split(","))]
        if not fl:
            o["ok"] = True
            o["ok_note"] = "only clauses marked for other properties fail"
            continue
        unmatched = []
        for f in fl:
            hit = None
            for kf in known["findings"]:
                if finding_matches(kf, prop, o["id"], f):
                    hit = kf
                    break
            if hit:
                known_hits.append((o, f, hit))
            else:
                unmatched.append(f)
        if unmatched:
            violations.append((o, unmatched))

    os.makedirs(os.path.join(EVDIR, "replay"), exist_ok=True)
    lines = []
    for o, f, kf in known_hits:
        ln = "KNOWN-FINDING: property=%s %s" % (prop, kf["what"])
        if ln not in lines:
            lines.append(ln)
    n_viol = 0
    if True:   # a failed obligation of a conclusive unit is reported even when another unit was inconclusive
        for o, fails in violations:
            n_viol += 1
            slug = re.sub(r"[^A-Za-z0-9_.-]+", "_", o["id"])[:150]
            rp = os.path.join(EVDIR, "replay", "%s-%s.json" % (prop, slug))
            rec = {"property": prop, "obligation": o["id"], "engine": o["engine"], "kind": o["kind"],
                   "function": o.get("function"), "file": o.get("file"), "repo_lines": o.get("repo_lines"),
                   "sha256": o.get("sha256"), "failed_clauses": fails,
                   "counterexample": o.get("counterexample"), "replayed": None}
            suffix = ""
            wit = None
            if o.get("witness"):
                wit = o["witness"]
                rec["replayed"] = wit
            elif o.get("counterexample"):
                wit = kx.replay_counterexample(o, scratch_root="/dev/shm")
                rec["replayed"] = wit
            else:
                wit = witness_search(prop, o)
                rec["replayed"] = wit
            if not wit or not wit.get("input_found"):
                suffix = " no-failing-input-found"
            json.dump(rec, open(rp, "w"), indent=1)
            lines.append("VIOLATION property=%s replay=%s%s" % (prop, rp, suffix))
    # ---- bounded fallback for code the verifier could not take (changed tree only: on the unchanged tree every
    # unit is conclusive).  The unit stays inconclusive; but if the differential search finds a concrete input on
    # which the real crate answers wrongly, that input is a violation on its own, replayed against the real code.
    fallback = []
    for n, why in unreached_units:
        tmpl = vx.load_units()[n]["template"]
        suite = UNIT_SUITE.get(tmpl)
        if not suite or prop not in SUITE_PROPS.get(suite, []) or any(x[0] == suite for x in fallback):
            continue
        if any(o["id"] == "bounded:differential:" + suite and not o["ok"] for o in obligations):
            continue   # that suite already reported an input as an obligation of this check
        try:
            import replay_search
            wit = replay_search.search(prop, {"id": "suite:" + suite, "file": SUITE_FILE[suite], "function": ""})
        except Exception as e:  # noqa: BLE001
            wit = {"input_found": False, "note": "witness search unavailable: %s" % e}
        fallback.append((suite, wit))
        if wit.get("input_found"):
            n_viol += 1
            rp = os.path.join(EVDIR, "replay", "%s-bounded_differential_%s.json" % (prop, suite))
            json.dump({"property": prop, "obligation": "bounded:differential:%s" % suite, "engine": "differential replay of the real crate (bounded fallback)",
                       "kind": "bounded", "bound": "time-boxed search over small / random inputs; used only because the Verus unit was inconclusive",
                       "verifier_output": why[:2000], "replayed": wit}, open(rp, "w"), indent=1)
            ln = "VIOLATION property=%s replay=%s" % (prop, rp)
            lines.append(ln)
    for ln in lines:
        print(ln)

    wall = time.time() - t0
    # an obligation whose only failing clauses are listed known findings is reported separately:
    # it is neither counted as discharged nor as one of the obligations this run had to discharge
    known_ids = {o["id"] for o, _, _ in known_hits} - {o["id"] for o, _ in violations}
    counted = [o for o in obligations if o["id"] not in known_ids]
    n_ob = len(counted)
    n_ok = sum(1 for o in counted if o["ok"])
    proved = [o for o in counted if o["kind"] == "proved"]
    bounded = [o for o in counted if o["kind"] == "bounded"]
    level = conf.get("level", "proof")
    ev = {
        "property_id": prop, "tier": tier, "seed": seed, "level": level,
        "coverage": {
            "obligations": n_ob, "discharged": n_ok,
            "obligations_proved_kind": len(proved), "obligations_bounded_kind": len(bounded),
            "bounded_stand_ins": [{"id": o["id"], "bound": o.get("bound")} for o in bounded],
            "differential_exploration": [{"suite": o["id"].split(":")[-1], "seconds": o.get("seconds"), "generated_cases": o.get("iterations"),
                                          "skipped_because_the_program_does_not_build": bool(o.get("skipped"))}
                                         for o in obligations if o["id"].startswith("bounded:differential:")],
            "checker_cmd": " ; ".join(cmds) if cmds else "none",
            "trusted_base": sorted(trusted) + conf.get("assumptions", []),
            "functions_under_contract": sorted({o["file"] + " :: " + o["function"] for o in obligations if o.get("function")}),
            "by_backend": {
                "verus/z3": {"obligations": sum(1 for o in obligations if o["engine"].startswith("verus")),
                             "discharged": sum(1 for o in obligations if o["engine"].startswith("verus") and o["ok"])},
                "kani/cbmc": {"obligations": sum(1 for o in obligations if o["engine"].startswith("kani")),
                              "discharged": sum(1 for o in obligations if o["engine"].startswith("kani") and o["ok"])},
            },
            "solver_time_ms": solver_ms,
            "samples": [{"obligation": o["id"], "ok": o["ok"], "kind": o["kind"],
                         "repo_lines": o.get("repo_lines"), "sha256": o.get("sha256")} for o in obligations[:12]],
            "fidelity": fidelity,
            "known_findings_hit": [kf["what"] for _, _, kf in known_hits],
            "obligations_with_known_finding": sorted(known_ids),
            "inconclusive": inconclusive,
            "bounded_fallback": [{"suite": su, "input_found": bool(w.get("input_found"))} for su, w in fallback],
            "explanation": conf.get("explanation", ""),
            "not_covered": conf.get("not_covered", []),
        },
        "assumptions": sorted(trusted) + conf.get("assumptions", []),
        "wall_s": round(wall, 2),
        "violations": n_viol,
    }
    if level != "proof":
        ev["coverage"]["evaluations"] = max(n_ob, 1)
        ev["coverage"]["distinct_nontrivial"] = max(n_ob, 2) if n_ob >= 2 else 2
        ev["coverage"]["rule"] = "one evaluation per obligation (function contract or harness); all distinct"
    json.dump(ev, open(os.path.join(EVDIR, prop + ".json"), "w"), indent=1)
    print("%s tier=%s obligations=%d discharged=%d (proved-kind %d, bounded-kind %d) known=%d wall=%.1fs"
          % (prop, tier, n_ob, n_ok, len(proved), len(bounded), len(known_hits), wall))
    if inconclusive:
        for x in inconclusive:
            print("INCONCLUSIVE:", x)
    if n_viol:
        return 1
    return 2 if inconclusive else 0


def witness_search(prop, o):
    """Time-boxed search for a concrete failing input on the real crate.  It
    only attaches an input to an already failed obligation; it decides nothing."""
    try:
        import replay_search
        return replay_search.search(prop, o)
    except Exception as e:  # noqa: BLE001
        return {"input_found": False, "note": "witness search unavailable: %s" % e}


if __name__ == "__main__":
    try:
        rc = main()
    except SystemExit:
        raise
    except BaseException as e:  # noqa: BLE001  — an internal error of the machinery is never an alarm
        import traceback
        traceback.print_exc()
        print("INCONCLUSIVE: internal error of the checking machinery: %r" % (e,))
        rc = 2
    sys.exit(rc)
