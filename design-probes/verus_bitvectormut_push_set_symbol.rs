#![feature(allocator_api)]
use vstd::prelude::*;
verus! {
global size_of usize == 8;

// ---- spec: bits of words / lines ----
pub open spec fn wbit(w: u64, k: int) -> bool { (w >> (k as u64)) & 1 == 1 }

pub proof fn lemma_set_bit(w: u64, k: u64, s: u64, j: u64)
    requires k < 64, j < 64
    ensures ({
        let m = 1u64 << k;
        let w1 = w ^ (w & m);
        let w2 = w1 ^ ((s & 1) << k);
        ((w2 >> j) & 1 == 1) == (if j == k { s & 1 == 1 } else { (w >> j) & 1 == 1 })
    })
{
    assert(k < 64 && j < 64 ==> ({
        let m = 1u64 << k;
        let w1 = w ^ (w & m);
        let w2 = w1 ^ ((s & 1) << k);
        ((w2 >> j) & 1 == 1) == (if j == k { s & 1 == 1 } else { (w >> j) & 1 == 1 })
    })) by (bit_vector);
}

#[derive(Copy, Clone)]
pub struct DataLine {
    words: [u64; 8],
}

impl DataLine {
    pub closed spec fn lbit(&self, i: int) -> bool { wbit(self.words[i / 64], i % 64) }
    pub closed spec fn zero(&self) -> bool { forall|i: int| 0 <= i < 512 ==> !self.lbit(i) }

    // REAL BODY (bitvector/mod.rs:28-34), `assert!` kept
    fn set_symbol(&mut self, symbol: u64, i: usize)
        requires i < 512
        ensures forall|j: int| 0 <= j < 512 ==> final(self).lbit(j) == (if j == i { symbol & 1 == 1 } else { old(self).lbit(j) })
    {
        assert!(i < 512);
        /*@+*/ proof {
            assert(i >> 6 == i / 64 && i >> 6 < 8) by (bit_vector) requires i < 512;
        }
        let ghost w0 = self.words[(i / 64) as int]; /*@-*/

        let mask: u64 = 1 << (i % 64);
        self.words[i >> 6] ^= self.words[i >> 6] & mask; //zero out the position
        self.words[i >> 6] ^= (symbol & 1) << (i % 64); //set position to symbol
        /*@+*/ proof {
            assert forall|j: int| 0 <= j < 512 implies self.lbit(j) == (if j == i { symbol & 1 == 1 } else { old(self).lbit(j) }) by {
                if j / 64 == i / 64 {
                    lemma_set_bit(w0, (i % 64) as u64, symbol, (j % 64) as u64);
                }
            }
        } /*@-*/
    }
}

pub struct BitVectorMut {
    data: Vec<DataLine>,
    n_bits: usize,
    n_ones: usize,
}

pub open spec fn cnt_true(s: Seq<bool>) -> nat { s.filter(|b: bool| b).len() }

impl BitVectorMut {
    pub closed spec fn bit_at(&self, i: int) -> bool { self.data[i / 512].lbit(i % 512) }
    pub closed spec fn view(&self) -> Seq<bool> { Seq::new(self.n_bits as nat, |i: int| self.bit_at(i)) }
    pub closed spec fn wf(&self) -> bool {
        &&& self.data.len() * 512 >= self.n_bits
        &&& self.data.len() == (self.n_bits + 511) / 512
        &&& forall|i: int| self.n_bits <= i < self.data.len() * 512 ==> !self.bit_at(i)
        &&& self.n_ones == cnt_true(self.view())
    }

    // REAL BODY (bitvector/mod.rs:885-898)
    pub fn push(&mut self, bit: bool)
        requires old(self).wf(), old(self).view().len() < usize::MAX - 512
        ensures final(self).wf(), final(self).view() == old(self).view().push(bit)
    {
        let pos_in_line = self.n_bits % 512;
        /*@+*/ let ghost v0 = self.view();
        let ghost nb = self.n_bits as int;
        /*@-*/
        if pos_in_line == 0 {
            let z = DataLine { words: [0; 8] };   // hunk: DataLine::default()
            /*@+*/ proof { lemma_zero_line(z); } /*@-*/
            self.data.push(z);
        }
        /*@+*/ let ghost d1 = self.data@;
        proof {
            assert(d1.len() == nb / 512 + 1);
            assert(forall|i: int| 0 <= i < nb ==> #[trigger] d1[i / 512].lbit(i % 512) == v0[i]);
            assert forall|i: int| nb <= i < d1.len() * 512 implies !(#[trigger] d1[i / 512].lbit(i % 512)) by {
                if pos_in_line == 0 {
                    assert(nb == (d1.len() - 1) * 512);
                    assert(i / 512 == d1.len() - 1);
                    assert(d1[i / 512].zero());
                } else {
                    assert(old(self).bit_at(i) == d1[i / 512].lbit(i % 512));
                }
            }
        } /*@-*/
        if bit {
            // push a 1
            if let Some(last) = self.data.last_mut() {
                last.set_symbol(1, pos_in_line);
            }
            self.n_ones += 1;
        }
        self.n_bits += 1;
        /*@+*/ proof {
            let d2 = self.data@;
            assert(d2.len() == d1.len());
            assert(1u64 & 1 == 1) by (bit_vector);
            assert forall|i: int| 0 <= i < d2.len() * 512 implies
                #[trigger] d2[i / 512].lbit(i % 512) == (if i == nb { bit } else { d1[i / 512].lbit(i % 512) }) by {
                if i / 512 == d1.len() - 1 { } else { }
            }
            assert(self.view() =~= v0.push(bit));
            lemma_cnt_push(v0, bit);
        } /*@-*/
    }
}

proof fn lemma_zero_line(l: DataLine)
    requires forall|w: int| 0 <= w < 8 ==> l.words[w] == 0
    ensures l.zero()
{
    assert forall|i: int| 0 <= i < 512 implies !l.lbit(i) by {
        let k = (i % 64) as u64;
        assert((0u64 >> k) & 1 == 0) by (bit_vector);
    }
}

pub proof fn lemma_cnt_push(s: Seq<bool>, b: bool)
    ensures cnt_true(s.push(b)) == cnt_true(s) + (if b { 1nat } else { 0nat })
{
    let p = |x: bool| x;
    assert(s.push(b) == s + seq![b]);
    Seq::filter_distributes_over_add(s, seq![b], p);
    reveal_with_fuel(Seq::filter, 2);
    assert(seq![b].drop_last() == Seq::<bool>::empty());
}

} // verus!
fn main() {}
