use vstd::prelude::*;
verus! {
global size_of usize == 8;

pub trait RSSupport {
    const BLOCK_SIZE: usize;
    fn rank_block(&self, symbol: u8, i: usize) -> usize;
}

pub struct SB { counters: [u128; 4] }

pub struct Plain<const B_SIZE: usize> {
    superblocks: Box<[SB]>,
    select_samples: [Box<[u32]>; 4],
}

impl<const B_SIZE: usize> Plain<B_SIZE> {
    const SELECT_NUM_SAMPLES: usize = 1 << 13;
    const BLOCKS_IN_SUPERBLOCK: usize = 8;

    fn superblock_index(i: usize) -> usize
        requires B_SIZE == 256 || B_SIZE == 512
    {
        i / (B_SIZE * Self::BLOCKS_IN_SUPERBLOCK)
    }

    fn sc(&self, id: usize, symbol: u8) -> (r: usize)
        requires id < self.superblocks@.len(), symbol < 4
    {
        (self.superblocks[id].counters[symbol as usize] >> 84) as usize
    }

    fn sel(&self, symbol: u8, i: usize) -> Option<usize>
        requires symbol < 4, i > 0, self.select_samples[symbol as int]@.len() > (i - 1) / 8192 + 1
    {
        let sampled_i = (i - 1) / Self::SELECT_NUM_SAMPLES;
        let mut first = self.select_samples[symbol as usize][sampled_i] as usize;
        let last = 1 + self.select_samples[symbol as usize][sampled_i + 1] as usize;
        let x: i64 = -(first as i64) - 1;
        let mut k = 0usize;
        loop
            invariant k <= 10
            decreases 10 - k
        {
            if k >= 10 { break; }
            k += 1;
        }
        let r = opt(first)?;
        Some(r + 0)
    }
}

fn opt(x: usize) -> Option<usize> { if x > 3 { Some(x) } else { None } }

} // verus!
fn main() {}
