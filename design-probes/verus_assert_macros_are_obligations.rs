use vstd::prelude::*;
verus! {
global size_of usize == 8;
fn chk(a: usize, b: usize) -> usize
{
    assert!(a < 8);
    debug_assert!(b < 3);
    a
}
} // verus!
fn main() {}
