#[cfg(kani)]
pub mod verif_kani {
    use super::*;
    pub fn siw_post(w: u64, k: u64, r: u32) -> bool {
        if (w.count_ones() as u64) > k {
            r < 64 && (w >> r) & 1 == 1 && (if r == 0 { 0 } else { (w & (u64::MAX >> (64 - r))).count_ones() as u64 }) == k
        } else { r == 64 }
    }
    pub fn siw128_post(w: u128, k: u64, r: u32) -> bool {
        if (w.count_ones() as u64) > k {
            r < 128 && (w >> r) & 1 == 1 && (if r == 0 { 0 } else { (w & (u128::MAX >> (128 - r))).count_ones() as u64 }) == k
        } else { r == 128 }
    }
    #[kani::proof_for_contract(select_in_word)]
    fn prove_siw() { select_in_word(kani::any(), kani::any()); }

    #[kani::proof_for_contract(select_in_word_u128)]
    #[kani::stub_verified(select_in_word)]
    fn prove_siw128() { select_in_word_u128(kani::any(), kani::any()); }
}
