use vstd::prelude::*;
verus! {

pub open spec fn filt<A>(s: Seq<A>, dig: spec_fn(A) -> int, d: int) -> Seq<A> {
    s.filter(|x: A| dig(x) == d)
}

pub open spec fn pref<A>(s: Seq<A>, dig: spec_fn(A) -> int, k: int) -> Seq<A>
    decreases k
{
    if k <= 0 { Seq::empty() } else { pref(s, dig, k - 1) + filt(s, dig, k - 1) }
}

pub open spec fn rank<A>(s: Seq<A>, dig: spec_fn(A) -> int, d: int, p: int) -> int {
    filt(s.take(p), dig, d).len() as int
}

pub open spec fn occs_smaller<A>(s: Seq<A>, dig: spec_fn(A) -> int, d: int) -> int {
    pref(s, dig, d).len() as int
}

pub proof fn lemma_filt_split<A>(s: Seq<A>, dig: spec_fn(A) -> int, d: int, p: int)
    requires 0 <= p <= s.len()
    ensures filt(s, dig, d) == filt(s.take(p), dig, d) + filt(s.skip(p), dig, d)
{
    assert(s == s.take(p) + s.skip(p));
    Seq::filter_distributes_over_add(s.take(p), s.skip(p), |x: A| dig(x) == d);
}

pub proof fn lemma_filt_first<A>(s: Seq<A>, dig: spec_fn(A) -> int, d: int)
    requires s.len() > 0, dig(s[0]) == d
    ensures filt(s, dig, d).len() > 0, filt(s, dig, d)[0] == s[0]
{
    let pred = |x: A| dig(x) == d;
    assert(s == seq![s[0]] + s.skip(1));
    Seq::filter_distributes_over_add(seq![s[0]], s.skip(1), pred);
    reveal_with_fuel(Seq::filter, 2);
    assert(seq![s[0]].drop_last() == Seq::<A>::empty());
    assert(seq![s[0]].filter(pred) == seq![s[0]]);
}

pub proof fn lemma_pref_bucket<A>(s: Seq<A>, dig: spec_fn(A) -> int, b: int, d: int, k: int)
    requires 0 <= d < b, 0 <= k < filt(s, dig, d).len()
    ensures occs_smaller(s, dig, d) + k < pref(s, dig, b).len(),
            pref(s, dig, b)[occs_smaller(s, dig, d) + k] == filt(s, dig, d)[k]
    decreases b
{
    if b == d + 1 {
        // pref(b) = pref(d) + filt(d)
    } else {
        lemma_pref_bucket(s, dig, b - 1, d, k);
    }
}

/// Element mapping of a stable b-way partition (wavelet-matrix step).
pub proof fn lemma_elem_map<A>(s: Seq<A>, dig: spec_fn(A) -> int, b: int, p: int)
    requires 0 <= p < s.len(), 0 <= dig(s[p]) < b
    ensures ({
        let d = dig(s[p]);
        let q = occs_smaller(s, dig, d) + rank(s, dig, d, p);
        0 <= q < pref(s, dig, b).len() && pref(s, dig, b)[q] == s[p]
    })
{
    let d = dig(s[p]);
    lemma_filt_split(s, dig, d, p);
    lemma_filt_first(s.skip(p), dig, d);
    let k = rank(s, dig, d, p);
    assert(filt(s, dig, d)[k] == s[p]);
    lemma_pref_bucket(s, dig, b, d, k);
}

} // verus!
fn main() {}
