use vstd::prelude::*;
verus! {
global size_of usize == 8;

pub trait RankQuad {
    spec fn view_q(&self) -> Seq<u8>;
    spec fn wf_q(&self) -> bool;

    fn rank(&self, symbol: u8, i: usize) -> (r: Option<usize>)
        requires self.wf_q()
        ensures (symbol <= 3 && i <= self.view_q().len()) ==> r == Some(cnt(self.view_q().take(i as int), symbol) as usize),
                !(symbol <= 3 && i <= self.view_q().len()) ==> r.is_none();

    unsafe fn rank_unchecked(&self, symbol: u8, i: usize) -> (r: usize)
        requires self.wf_q(), symbol <= 3, i <= self.view_q().len()
        ensures r == cnt(self.view_q().take(i as int), symbol);
}

pub open spec fn cnt(s: Seq<u8>, c: u8) -> nat { s.filter(|x: u8| x == c).len() }

pub struct Tree<RS> { n: usize, qvs: Vec<RS> }

impl<RS: RankQuad> Tree<RS> {
    pub closed spec fn wf(&self) -> bool {
        self.qvs.len() >= 1 && forall|l: int| 0 <= l < self.qvs.len() ==> (#[trigger] self.qvs[l]).wf_q() && self.qvs[l].view_q().len() == self.n
    }
    pub fn r0(&self, symbol: u8, i: usize) -> (r: Option<usize>)
        requires self.wf()
        ensures r.is_some() ==> symbol <= 3
    {
        if i > self.n || symbol > 3 { return None; }
        Some(unsafe { self.qvs[0].rank_unchecked(symbol, i) })
    }
}

} // verus!
fn main() {}
