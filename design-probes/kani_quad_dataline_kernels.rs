#[cfg(kani)]
mod verif_kani {
    use super::*;

    fn slot(l: &DataLine, j: usize) -> u8 {
        let hi = (l.words[j >> 7] >> (j & 127)) & 1;
        let lo = (l.words[(j >> 7) + 2] >> (j & 127)) & 1;
        ((hi << 1) | lo) as u8
    }

    fn lowmask(r: usize) -> u128 { if r == 0 { 0 } else if r >= 128 { u128::MAX } else { u128::MAX >> (128 - r) } }

    #[kani::proof]
    fn k5_normalize() {
        let l = DataLine { words: kani::any() };
        let s: u8 = kani::any();
        let j: usize = kani::any();
        kani::assume(s <= 3 && j < 256);
        let (w0, w1) = l.normalize(s);
        let b = if j < 128 { (w0 >> j) & 1 } else { (w1 >> (j - 128)) & 1 };
        assert!((b == 1) == (slot(&l, j) == s));
    }

    #[kani::proof]
    fn k5_rank_unchecked() {
        let l = DataLine { words: kani::any() };
        let s: u8 = kani::any();
        let i: usize = kani::any();
        kani::assume(s <= 3 && i <= 256);
        let (w0, w1) = l.normalize(s);
        let exp = (w0 & lowmask(i)).count_ones() as usize
            + (w1 & lowmask(if i > 128 { i - 128 } else { 0 })).count_ones() as usize;
        assert!(unsafe { l.rank_unchecked(s, i) } == exp);
        assert!(l.rank(s, i) == Some(exp));
    }

    #[kani::proof]
    fn k5_get_set() {
        let mut l = DataLine { words: kani::any() };
        let i: u8 = kani::any();
        let j: usize = kani::any();
        kani::assume(j < 256);
        let sym: u8 = kani::any();
        kani::assume(slot(&l, i as usize) == 0);
        let before = slot(&l, j);
        l.set_symbol(sym, i);
        let after = unsafe { l.get_unchecked(j) };
        assert!(after == slot(&l, j));
        if j == i as usize { assert!(after == sym & 3); } else { assert!(after == before); }
    }
}
