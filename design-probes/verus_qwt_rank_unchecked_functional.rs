use vstd::prelude::*;
verus! {
global size_of usize == 8;

// ---------- theory (generic) ----------
pub open spec fn digeq<A>(dig: spec_fn(A) -> int, d: int) -> spec_fn(A) -> bool { |x: A| dig(x) == d }
pub open spec fn eqv<B>(b: B) -> spec_fn(B) -> bool { |y: B| y == b }
pub open spec fn compeq<A, B>(f: spec_fn(A) -> B, b: B) -> spec_fn(A) -> bool { |x: A| f(x) == b }
pub open spec fn filt<A>(s: Seq<A>, dig: spec_fn(A) -> int, d: int) -> Seq<A> {
    s.filter(digeq(dig, d))
}
pub open spec fn pref<A>(s: Seq<A>, dig: spec_fn(A) -> int, k: int) -> Seq<A>
    decreases k
{
    if k <= 0 { Seq::empty() } else { pref(s, dig, k - 1) + filt(s, dig, k - 1) }
}
pub open spec fn rankd<A>(s: Seq<A>, dig: spec_fn(A) -> int, d: int, p: int) -> int {
    filt(s.take(p), dig, d).len() as int
}
pub open spec fn osm<A>(s: Seq<A>, dig: spec_fn(A) -> int, d: int) -> int {
    pref(s, dig, d).len() as int
}

pub proof fn lemma_filt_split<A>(s: Seq<A>, dig: spec_fn(A) -> int, d: int, p: int)
    requires 0 <= p <= s.len()
    ensures filt(s, dig, d) == filt(s.take(p), dig, d) + filt(s.skip(p), dig, d)
{
    assert(s == s.take(p) + s.skip(p));
    Seq::filter_distributes_over_add(s.take(p), s.skip(p), digeq(dig, d));
}

pub proof fn lemma_pref_bucket_range<A>(s: Seq<A>, dig: spec_fn(A) -> int, b: int, d: int)
    requires 0 <= d < b
    ensures osm(s, dig, d) + filt(s, dig, d).len() <= pref(s, dig, b).len(),
            pref(s, dig, b).subrange(osm(s, dig, d), osm(s, dig, d) + filt(s, dig, d).len()) == filt(s, dig, d)
    decreases b
{
    if b == d + 1 {
        assert(pref(s, dig, b) == pref(s, dig, d) + filt(s, dig, d));
        assert(pref(s, dig, b).subrange(osm(s, dig, d), osm(s, dig, d) + filt(s, dig, d).len()) =~= filt(s, dig, d));
    } else {
        lemma_pref_bucket_range(s, dig, b - 1, d);
        let lo = osm(s, dig, d);
        let hi = lo + filt(s, dig, d).len();
        assert(pref(s, dig, b) == pref(s, dig, b - 1) + filt(s, dig, b - 1));
        assert(pref(s, dig, b).subrange(lo, hi) =~= pref(s, dig, b - 1).subrange(lo, hi));
    }
}

/// Range map: the d-bucket elements of s[p..q) sit, in order, at
/// [osm(d)+rank_d(p), osm(d)+rank_d(q)) of the partitioned sequence.
pub proof fn lemma_range_map<A>(s: Seq<A>, dig: spec_fn(A) -> int, b: int, d: int, p: int, q: int)
    requires 0 <= d < b, 0 <= p <= q <= s.len()
    ensures ({
        let lo = osm(s, dig, d) + rankd(s, dig, d, p);
        let hi = osm(s, dig, d) + rankd(s, dig, d, q);
        lo <= hi <= pref(s, dig, b).len()
        && pref(s, dig, b).subrange(lo, hi) == filt(s.subrange(p, q), dig, d)
    })
{
    // filt(s) = filt(take p) + filt(sub p q) + filt(skip q)
    lemma_filt_split(s, dig, d, q);
    lemma_filt_split(s.take(q), dig, d, p);
    assert(s.take(q).take(p) == s.take(p));
    assert(s.take(q).skip(p) == s.subrange(p, q));
    lemma_pref_bucket_range(s, dig, b, d);
    let f = filt(s, dig, d);
    let a = filt(s.take(p), dig, d);
    let m = filt(s.subrange(p, q), dig, d);
    let z = filt(s.skip(q), dig, d);
    assert(f == (a + m) + z);
    let o = osm(s, dig, d);
    assert(pref(s, dig, b).subrange(o, o + f.len()) == f);
    assert(f.subrange(a.len() as int, (a.len() + m.len()) as int) =~= m);
    assert(pref(s, dig, b).subrange(o + a.len(), o + a.len() + m.len()) =~= f.subrange(a.len() as int, (a.len() + m.len()) as int));
}


// ---------- more theory ----------
pub proof fn lemma_filter_fuse<A>(s: Seq<A>, p: spec_fn(A) -> bool, q: spec_fn(A) -> bool, r: spec_fn(A) -> bool)
    requires forall|x: A| #[trigger] r(x) == (p(x) && q(x))
    ensures s.filter(p).filter(q) == s.filter(r)
    decreases s.len()
{
    reveal(Seq::filter);
    if s.len() == 0 {
    } else {
        lemma_filter_fuse(s.drop_last(), p, q, r);
        let a = s.last();
        let f = s.drop_last().filter(p);
        if p(a) {
            assert(s.filter(p) == f.push(a));
            assert(f.push(a).drop_last() == f);
        }
    }
}

pub proof fn lemma_map_filter_len<A, B>(s: Seq<A>, f: spec_fn(A) -> B, b: B)
    ensures s.map_values(f).filter(eqv(b)).len() == s.filter(compeq(f, b)).len()
    decreases s.len()
{
    reveal(Seq::filter);
    if s.len() > 0 {
        lemma_map_filter_len(s.drop_last(), f, b);
        assert(s.map_values(f).drop_last() == s.drop_last().map_values(f));
    }
}


pub proof fn lemma_filter_ext<A>(s: Seq<A>, p: spec_fn(A) -> bool, q: spec_fn(A) -> bool)
    requires forall|x: A| #[trigger] p(x) == q(x)
    ensures s.filter(p) == s.filter(q)
    decreases s.len()
{
    reveal(Seq::filter);
    if s.len() > 0 { lemma_filter_ext(s.drop_last(), p, q); }
}

pub proof fn lemma_pref_len4<A>(s: Seq<A>, dig: spec_fn(A) -> int)
    requires forall|x: A| 0 <= #[trigger] dig(x) < 4
    ensures pref(s, dig, 4).len() == s.len()
    decreases s.len()
{
    reveal_with_fuel(pref, 5);
    reveal(Seq::filter);
    if s.len() > 0 {
        let a = s.last();
        let s0 = s.drop_last();
        lemma_pref_len4(s0, dig);
        assert(0 <= dig(a) < 4);
    }
}

// digits of a mapped level: counting in the u8 view == counting by digit in the element view
pub proof fn lemma_cntq_rankd(p: Seq<u64>, sh: int, d: int, k: int)
    requires 0 <= sh < 63, 0 <= d < 4, 0 <= k <= p.len()
    ensures cntq(p.map_values(dg8f(sh)).take(k), d as u8) == rankd(p, dgf(sh), d, k)
{
    let g = dg8f(sh);
    assert(p.map_values(g).take(k) == p.take(k).map_values(g));
    lemma_map_filter_len(p.take(k), g, d as u8);
    let p1 = compeq(g, d as u8);
    let p2 = digeq(dgf(sh), d);
    assert forall|x: u64| #[trigger] p1(x) == p2(x) by {
        lemma_dg_range(x, sh);
    }
    lemma_filter_ext(p.take(k), p1, p2);
}

pub proof fn lemma_dg_range(x: u64, sh: int)
    requires 0 <= sh < 64
    ensures 0 <= dg(x, sh) < 4
{
    let shu = sh as u64;
    assert((x >> shu) & 3 < 4) by (bit_vector);
}

pub proof fn lemma_smaller_osm(p: Seq<u64>, sh: int, d: int)
    requires 0 <= sh < 63, 0 <= d <= 4
    ensures smaller(p.map_values(dg8f(sh)), d) == osm(p, dgf(sh), d)
    decreases d
{
    if d > 0 {
        lemma_smaller_osm(p, sh, d - 1);
        lemma_cntq_rankd(p, sh, d - 1, p.len() as int);
        assert(p.take(p.len() as int) == p);
        let q = p.map_values(dg8f(sh));
        assert(q.take(p.len() as int) == q);
    }
}

pub proof fn lemma_pm_step(x: u64, c: u64, sh: int)
    requires 0 <= sh <= 60
    ensures pm(x, c, sh) == (pm(x, c, sh + 2) && dg(x, sh) == dg(c, sh))
{
    let s0 = sh as u64;
    let s2 = (sh + 2) as u64;
    assert(s0 <= 60 ==> ((x >> s0 == c >> s0) == ((x >> ((s0 + 2) as u64) == c >> ((s0 + 2) as u64)) && ((x >> s0) & 3 == (c >> s0) & 3)))) by (bit_vector);
}


pub proof fn lemma_filter_all<A>(s: Seq<A>, p: spec_fn(A) -> bool)
    requires forall|k: int| 0 <= k < s.len() ==> p(#[trigger] s[k])
    ensures s.filter(p) == s
    decreases s.len()
{
    reveal(Seq::filter);
    if s.len() > 0 {
        lemma_filter_all(s.drop_last(), p);
        assert(s.drop_last().push(s.last()) == s);
    }
}

pub proof fn lemma_pm0(x: u64, c: u64, sigma: u64, sh: int)
    requires 2 <= sh <= 62, pm(x, 0, sh), pm(sigma, 0, sh), c <= sigma
    ensures pm(x, c, sh)
{
    let u = sh as u64;
    assert(u <= 62 && (sigma >> u == 0u64 >> u) && c <= sigma ==> (c >> u == 0u64 >> u)) by (bit_vector);
}

pub proof fn lemma_two_bits(symbol: u64, shift: i64)
    requires 0 <= shift <= 60
    ensures (((symbol >> (shift as usize)) & 3) as u8) as int == dg(symbol, shift as int),
            ((symbol >> (shift as usize)) & 3) < 4,
            0 <= dg(symbol, shift as int) < 4,
{
    let u = shift as u64;
    assert((symbol >> u) & 3 < 4) by (bit_vector);
    assert(shift as usize == u);
}

pub proof fn lemma_levels_len(s: Seq<u64>, nl: int, l: int)
    requires 0 <= l < nl <= 31
    ensures forall|k: int| 0 <= k <= l ==> (#[trigger] lvl(s, nl, k)).len() == s.len()
    decreases l
{
    if l > 0 {
        lemma_levels_len(s, nl, l - 1);
        let sh = 2 * (nl - l);
        assert forall|x: u64| 0 <= #[trigger] dgf(sh)(x) < 4 by { lemma_dg_range(x, sh); }
        lemma_pref_len4(lvl(s, nl, l - 1), dgf(sh));
    }
}

// ---------- quad level contract ----------
pub open spec fn cntq(s: Seq<u8>, c: u8) -> int { s.filter(eqv(c)).len() as int }

pub trait WTS {
    spec fn qview(&self) -> Seq<u8>;
    unsafe fn rank_unchecked(&self, symbol: u8, i: usize) -> (r: usize)
        requires symbol <= 3, i <= self.qview().len()
        ensures r == cntq(self.qview().take(i as int), symbol);
    unsafe fn occs_smaller_unchecked(&self, symbol: u8) -> (r: usize)
        requires symbol <= 3
        ensures r == smaller(self.qview(), symbol as int);
}
pub open spec fn smaller(s: Seq<u8>, d: int) -> int
    decreases d
{
    if d <= 0 { 0 } else { smaller(s, d - 1) + cntq(s, (d - 1) as u8) }
}

// ---------- digits ----------
pub open spec fn dgf(sh: int) -> spec_fn(u64) -> int { |x: u64| dg(x, sh) }
pub open spec fn dg8f(sh: int) -> spec_fn(u64) -> u8 { |x: u64| dg(x, sh) as u8 }
pub open spec fn pmf(c: u64, sh: int) -> spec_fn(u64) -> bool { |x: u64| pm(x, c, sh) }
pub open spec fn eqf(c: u64) -> spec_fn(u64) -> bool { eqv(c) }
pub open spec fn dg(x: u64, sh: int) -> int { ((x >> (sh as u64)) & 3) as int }
pub open spec fn pm(x: u64, c: u64, sh: int) -> bool { if sh >= 64 { true } else { x >> (sh as u64) == c >> (sh as u64) } }

pub open spec fn lvl(s: Seq<u64>, nl: int, l: int) -> Seq<u64>
    decreases l
{
    if l <= 0 { s } else { pref(lvl(s, nl, l - 1), dgf(2 * (nl - l)), 4) }
}

pub struct Tree<RS> { n: usize, n_levels: usize, sigma: u64, qvs: Vec<RS> }

impl<RS: WTS> Tree<RS> {
    pub closed spec fn spec_n(&self) -> usize { self.n }
    pub closed spec fn spec_sigma(&self) -> u64 { self.sigma }
    pub closed spec fn wf_for(&self, s: Seq<u64>) -> bool {
        &&& self.n == s.len()
        &&& 1 <= self.n_levels <= 31
        &&& self.qvs.len() == self.n_levels
        &&& forall|l: int| 0 <= l < self.n_levels ==> (#[trigger] self.qvs[l]).qview()
                == lvl(s, self.n_levels as int, l).map_values(dg8f(2 * (self.n_levels - 1 - l)))
        &&& forall|i: int| 0 <= i < s.len() ==> pm(#[trigger] s[i], 0, 2 * self.n_levels)
        &&& pm(self.sigma, 0, 2 * self.n_levels)
    }

    pub unsafe fn rank_unchecked(&self, symbol: u64, i: usize, Ghost(s): Ghost<Seq<u64>>) -> (r: usize)
        requires self.wf_for(s), i <= self.spec_n(), symbol <= self.spec_sigma()
        ensures r == s.take(i as int).filter(eqf(symbol)).len()
    {
        let ghost nl = self.n_levels as int;
        proof { lemma_levels_len(s, nl, nl - 1); }
        let mut shift: i64 = (2 * (self.n_levels - 1)) as i64;
        let mut cur_i = i;
        let mut cur_p = 0;
        proof {
            // at level 0 every element matches on the (empty) prefix above bit 2*nl
            let t = s.take(i as int);
            assert(t.filter(pmf(symbol, 2 * nl)) == t) by {
                assert forall|k: int| 0 <= k < t.len() implies pmf(symbol, 2 * nl)(#[trigger] t[k]) by {
                    assert(t[k] == s[k]);
                    lemma_pm0(t[k], symbol, self.sigma, 2 * nl);
                }
                lemma_filter_all(t, pmf(symbol, 2 * nl));
            }
            assert(lvl(s, nl, 0).subrange(0, i as int) == s.take(i as int));
        }

        for level in 0..self.n_levels - 1
            invariant
                self.wf_for(s), nl == self.n_levels, i <= self.spec_n(), symbol <= self.spec_sigma(),
                shift == 2 * (nl - 1 - level),
                cur_p <= cur_i <= self.spec_n(),
                lvl(s, nl, level as int).len() == s.len(),
                lvl(s, nl, level as int).subrange(cur_p as int, cur_i as int)
                    == s.take(i as int).filter(pmf(symbol, shift + 2)),
        {
            proof { lemma_two_bits(symbol, shift); }
            let two_bits: u8 = ((symbol >> shift as usize) & 3) as u8;
            let ghost sh = shift as int;
            let ghost d = two_bits as int;
            let ghost p = lvl(s, nl, level as int);
            proof {
                assert(0 <= sh <= 60);
                lemma_two_bits(symbol, shift);
                assert(d == dg(symbol, sh));
                assert(self.qvs[level as int].qview() == p.map_values(dg8f(sh)));
                lemma_cntq_rankd(p, sh, d, cur_p as int);
                lemma_cntq_rankd(p, sh, d, cur_i as int);
                lemma_smaller_osm(p, sh, d);
                lemma_range_map(p, dgf(sh), 4, d, cur_p as int, cur_i as int);
                assert forall|x: u64| 0 <= #[trigger] dgf(sh)(x) < 4 by { lemma_dg_range(x, sh); }
                lemma_pref_len4(p, dgf(sh));
                assert(lvl(s, nl, level as int + 1) == pref(p, dgf(sh), 4));
                // fuse the two filters
                let t = s.take(i as int);
                assert forall|x: u64| #[trigger] pmf(symbol, sh)(x) == (pmf(symbol, sh + 2)(x) && digeq(dgf(sh), d)(x)) by {
                    lemma_pm_step(x, symbol, sh);
                }
                lemma_filter_fuse(t, pmf(symbol, sh + 2), digeq(dgf(sh), d), pmf(symbol, sh));
            }

            let offset = unsafe { self.qvs[level].occs_smaller_unchecked(two_bits) };
            cur_p = self.qvs[level].rank_unchecked(two_bits, cur_p) + offset;
            cur_i = self.qvs[level].rank_unchecked(two_bits, cur_i) + offset;

            shift -= 2;
        }

        proof { lemma_two_bits(symbol, shift); }
        let two_bits: u8 = ((symbol >> shift as usize) & 3) as u8;
        let ghost d = two_bits as int;
        let ghost p = lvl(s, nl, nl - 1);
        proof {
            assert(shift == 0);
            lemma_two_bits(symbol, shift);
            assert(self.qvs[nl - 1].qview() == p.map_values(dg8f(0)));
            lemma_cntq_rankd(p, 0, d, cur_p as int);
            lemma_cntq_rankd(p, 0, d, cur_i as int);
            // rank(cur_i) - rank(cur_p) = #d in p[cur_p..cur_i)
            lemma_filt_split(p.take(cur_i as int), dgf(0), d, cur_p as int);
            assert(p.take(cur_i as int).take(cur_p as int) == p.take(cur_p as int));
            assert(p.take(cur_i as int).skip(cur_p as int) == p.subrange(cur_p as int, cur_i as int));
            let t = s.take(i as int);
            assert forall|x: u64| #[trigger] pmf(symbol, 0)(x) == (pmf(symbol, 2)(x) && digeq(dgf(0), d)(x)) by {
                lemma_pm_step(x, symbol, 0);
            }
            lemma_filter_fuse(t, pmf(symbol, 2), digeq(dgf(0), d), pmf(symbol, 0));
            assert forall|x: u64| #[trigger] pmf(symbol, 0)(x) == eqf(symbol)(x) by {
                assert(x >> 0u64 == x) by (bit_vector);
                assert(symbol >> 0u64 == symbol) by (bit_vector);
            }
            lemma_filter_ext(t, pmf(symbol, 0), eqf(symbol));
        }

        cur_i = self.qvs[self.n_levels - 1].rank_unchecked(two_bits, cur_i);
        cur_p = self.qvs[self.n_levels - 1].rank_unchecked(two_bits, cur_p);

        cur_i - cur_p
    }
}

} // verus!
fn main() {}
