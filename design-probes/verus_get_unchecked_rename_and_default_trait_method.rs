#![feature(allocator_api)]
use vstd::prelude::*;
use std::marker::PhantomData;
verus! {
global size_of usize == 8;

pub trait VxGu<T> {
    spec fn vx_view(&self) -> Seq<T>;
    unsafe fn vx_gu(&self, i: usize) -> (r: &T)
        requires i < self.vx_view().len()
        ensures *r == self.vx_view()[i as int];
}
impl<T> VxGu<T> for [T] {
    open spec fn vx_view(&self) -> Seq<T> { self@ }
    #[verifier::external_body]
    unsafe fn vx_gu(&self, i: usize) -> (r: &T) { self.get_unchecked(i) }
}

pub assume_specification<T, A: std::alloc::Allocator>[Vec::<T, A>::shrink_to_fit](v: &mut Vec<T, A>)
    ensures final(v)@ == old(v)@;

struct L { words: [u64; 8] }
impl L {
    unsafe fn g(&self, w: usize) -> (r: u64)
        requires w < 8
    {
        *self.words.vx_gu(w)
    }
}
struct V { data: Box<[L]> }
impl V {
    unsafe fn g(&self, i: usize) -> (r: u64)
        requires i < self.data@.len() * 8
    {
        let l = self.data.vx_gu(i >> 3);
        assert(i % 8 < 8);
        l.g(i % 8)
    }
}

// trait with default method + contract
pub trait RankBin {
    spec fn bits(&self) -> Seq<bool>;
    fn rank0(&self, i: usize) -> (r: Option<usize>)
        ensures i <= self.bits().len() ==> r.is_some()
    {
        if let Some(k) = self.rank1(i) {
            return Some(i - k);
        }
        None
    }
    fn rank1(&self, i: usize) -> (r: Option<usize>)
        ensures i <= self.bits().len() ==> r.is_some() && r.unwrap() <= i,
                i > self.bits().len() ==> r.is_none();
}

} // verus!
fn main() {}
