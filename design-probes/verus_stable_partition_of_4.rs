use vstd::prelude::*;
verus! {
global size_of usize == 8;

pub open spec fn dig4(a: u64, shift: usize) -> int { (((a as usize) >> shift) & 3) as int }

pub open spec fn filt(s: Seq<u64>, shift: usize, d: int) -> Seq<u64> {
    s.filter(|a: u64| dig4(a, shift) == d)
}

pub open spec fn spart4(s: Seq<u64>, shift: usize) -> Seq<u64> {
    filt(s, shift, 0) + filt(s, shift, 1) + filt(s, shift, 2) + filt(s, shift, 3)
}

pub proof fn lemma_filter_push<A>(s: Seq<A>, pred: spec_fn(A) -> bool, a: A)
    ensures s.push(a).filter(pred) == if pred(a) { s.filter(pred).push(a) } else { s.filter(pred) }
{
    assert(s.push(a) == s + seq![a]);
    Seq::filter_distributes_over_add(s, seq![a], pred);
    reveal_with_fuel(Seq::filter, 2);
    assert(seq![a].drop_last() == Seq::<A>::empty());
    assert(seq![a].filter(pred) == if pred(a) { seq![a] } else { Seq::<A>::empty() });
    if pred(a) {
        assert(s.filter(pred) + seq![a] == s.filter(pred).push(a));
    } else {
        assert(s.filter(pred) + Seq::<A>::empty() == s.filter(pred));
    }
}

pub fn stable_partition_of_4(sequence: &mut [u64], shift: usize)
    requires shift < 64
    ensures final(sequence)@ == spart4(old(sequence)@, shift)
{
    let mut vecs: [Vec<u64>; 4] = [Vec::new(), Vec::new(), Vec::new(), Vec::new()];

    for idx in 0..sequence.len()
        invariant
            shift < 64,
            sequence@ == old(sequence)@,
            forall|d: int| 0 <= d < 4 ==> (#[trigger] vecs[d])@ == filt(sequence@.take(idx as int), shift, d),
    {
        let a = sequence[idx];
        let two_bits: usize = ((a as usize) >> shift) & 3;
        assert(((a as usize) >> shift) & 3 < 4) by (bit_vector);
        let ghost old_vecs = vecs;
        vecs[two_bits].push(a);
        proof {
            let s0 = sequence@.take(idx as int);
            let s1 = sequence@.take(idx as int + 1);
            assert(s1 == s0.push(a));
            assert forall|d: int| 0 <= d < 4 implies (#[trigger] vecs[d])@ == filt(s1, shift, d) by {
                let pred = |x: u64| dig4(x, shift) == d;
                lemma_filter_push(s0, pred, a);
            }
        }
    }
    assert(sequence@.take(sequence@.len() as int) == sequence@);

    let ghost parts = [vecs[0]@, vecs[1]@, vecs[2]@, vecs[3]@];
    let ghost total = old(sequence)@;
    proof {
        lemma_parts_len(total, shift);
    }
    let mut pos = 0;
    for i in 0..4
        invariant
            sequence@.len() == total.len(),
            forall|d: int| 0 <= d < 4 ==> (#[trigger] vecs[d])@ == filt(total, shift, d),
            pos == pref_len(total, shift, i as int),
            pref_len(total, shift, 4) == total.len(),
            total.len() <= usize::MAX,
            sequence@.take(pos as int) == pref(total, shift, i as int),
    {
        proof {
            lemma_pref_mono(total, shift, i as int);
            assert(vecs[i as int]@ == filt(total, shift, i as int));
            reveal_with_fuel(pref, 2);
            assert((pos as int) + (vecs[i as int]@.len() as int) == pref_len(total, shift, i as int + 1));
            assert((pos as int) + (vecs[i as int]@.len() as int) <= sequence@.len() as int);
        }
        let ghost before = sequence@;
        sequence[pos..pos + vecs[i].len()].copy_from_slice(&(vecs[i][..]));
        pos += vecs[i].len();
        proof {
            assert(sequence@.take(pos as int) == before.take((pos - vecs[i as int]@.len()) as int) + vecs[i as int]@);
        }
    }
    assert(sequence@.take(sequence@.len() as int) == sequence@);
    proof { reveal_with_fuel(pref, 5); assert(pref(total, shift, 4) == spart4(total, shift)); }
}

pub open spec fn pref(s: Seq<u64>, shift: usize, k: int) -> Seq<u64>
    decreases k
{
    if k <= 0 { Seq::empty() } else { pref(s, shift, k - 1) + filt(s, shift, k - 1) }
}
pub open spec fn pref_len(s: Seq<u64>, shift: usize, k: int) -> int { pref(s, shift, k).len() as int }

pub proof fn lemma_pref_mono(s: Seq<u64>, shift: usize, k: int)
    requires 0 <= k < 4, pref_len(s, shift, 4) == s.len()
    ensures pref_len(s, shift, k) + filt(s, shift, k).len() == pref_len(s, shift, k + 1),
            pref_len(s, shift, k + 1) <= s.len()
{
    reveal_with_fuel(pref, 5);
}

pub proof fn lemma_parts_len(s: Seq<u64>, shift: usize)
    requires shift < 64
    ensures pref_len(s, shift, 4) == s.len()
    decreases s.len()
{
    reveal_with_fuel(pref, 5);
    if s.len() == 0 {
        assert(forall|d: int| filt(s, shift, d).len() == 0) by { reveal(Seq::filter); }
    } else {
        let a = s.last();
        let s0 = s.drop_last();
        assert(s == s0.push(a));
        lemma_parts_len(s0, shift);
        assert(0 <= dig4(a, shift) < 4) by {
            assert((((a as usize) >> shift) & 3) < 4) by (bit_vector);
        }
        assert forall|d: int| 0 <= d < 4 implies filt(s, shift, d).len() == filt(s0, shift, d).len() + (if dig4(a, shift) == d { 1int } else { 0int }) by {
            lemma_filter_push(s0, |x: u64| dig4(x, shift) == d, a);
        }
    }
}

} // verus!
fn main() {}
