#[cfg(kani)]
mod verif_kani {
    use super::*;
    use crate::bitvector::DataLine;

    fn any_bv<const L: usize>() -> (BitVector, [[u64; 8]; L]) {
        let words: [[u64; 8]; L] = kani::any();
        let n_bits: usize = kani::any();
        kani::assume(n_bits <= L * 512 && n_bits > (L - 1) * 512);
        // bits beyond n_bits are zero (type invariant of BitVector)
        let mut lines = Vec::with_capacity(L);
        let mut ones = 0usize;
        for l in 0..L {
            for w in 0..8 {
                let base = l * 512 + w * 64;
                let x = words[l][w];
                if base >= n_bits { kani::assume(x == 0); }
                else if base + 64 > n_bits { kani::assume(x >> (n_bits - base) == 0); }
                ones += x.count_ones() as usize;
            }
            lines.push(DataLine { words: words[l] });
        }
        (BitVector { data: lines.into_boxed_slice(), n_bits, n_ones: ones }, words)
    }

    #[kani::proof]
    #[kani::unwind(20)]
    fn rswide_rank_2lines() {
        let (bv, words) = any_bv::<2>();
        let n = bv.len();
        let rs = RSWide::new(bv);
        let i: usize = kani::any();
        kani::assume(i <= n);
        // oracle: popcount of first i bits
        let mut exp = 0usize;
        for l in 0..2 { for w in 0..8 {
            let base = l * 512 + w * 64;
            let x = words[l][w];
            if base + 64 <= i { exp += x.count_ones() as usize; }
            else if base < i { exp += (x & ((1u64 << (i - base)) - 1)).count_ones() as usize; }
        }}
        assert!(rs.rank1(i) == Some(exp));
    }
}
