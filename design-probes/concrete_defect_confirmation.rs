use qwt::*;
use std::panic::{catch_unwind, AssertUnwindSafe};

fn t<R: std::fmt::Debug>(name: &str, f: impl FnOnce() -> R) {
    match catch_unwind(AssertUnwindSafe(f)) {
        Ok(r) => println!("{name}: {:?}", r),
        Err(_) => println!("{name}: PANIC"),
    }
}

fn main() {
    std::panic::set_hook(Box::new(|_| {}));
    // D3 empty trees
    let e = QWT256::<u8>::new(&mut []);
    t("D3 empty QWT256 select(0,5)", || e.select(0, 5));
    t("D3 empty QWT256 get(0)", || e.get(0));
    let d = QWT256::<u8>::default();
    t("D3 default QWT256 select(0,5)", || d.select(0, 5));
    let w = WT::<u8>::new(&mut []);
    t("D3 empty WT rank(0,0)", || w.rank(0, 0));
    let h = HWT::<u8>::new(&mut []);
    t("D3 empty HWT select(0,0)", || h.select(0, 0));
    // D5 WT > 32 bit
    let mut v: Vec<u64> = vec![1u64 << 40, 3, (1u64 << 40) + 1];
    let wt = WT::new(&mut v.clone());
    t("D5 WT<u64> get(0) (expect 2^40)", || wt.get(0));
    t("D5 WT<u64> rank(2^40, 3) (expect 1)", || wt.rank(1u64 << 40, 3));
    // D6 select c > sigma
    let wt2 = WT::new(&mut vec![1u8, 5, 3, 5]);
    t("D6 WT select(13,0) (expect None)", || wt2.select(13, 0));
    let hw = HWT::new(&mut vec![1u8, 5, 3, 5]);
    t("D6 HWT select(13,0) (expect None)", || hw.select(13, 0));
    // D7 get_bits last window
    let mut bv = BitVectorMut::new();
    bv.append_bits(0b101, 3);
    t("D7 BitVectorMut get_bits(0,3) (expect Some(5))", || bv.get_bits(0, 3));
    let b2: BitVector = bv.clone().into();
    t("D7 BitVector get_bits(0,3)", || b2.get_bits(0, 3));
    // D8 set_bits n_ones
    let mut bv = BitVectorMut::with_zeros(4);
    bv.set_bits(0, 2, 0b11);
    bv.set_bits(0, 2, 0b11);
    t("D8 count_ones after set_bits twice (expect 2)", || bv.count_ones());
    // D9 into_iter len after exhaustion
    let b3: BitVector = vec![true, false].into_iter().collect();
    let mut it = b3.into_iter();
    it.next(); it.next(); it.next();
    t("D9 BitVectorIntoIter len after exhaustion (expect 0)", || it.len());
    // D10 DArray dense after sparse
    let mut pos: Vec<usize> = (0..1024).map(|i| i * 100).collect(); // sparse group: span 102300 >= 65536
    let base = 1024 * 100;
    pos.extend((0..1024).map(|i| base + i)); // dense group
    let da: DArray<false> = pos.iter().copied().collect();
    let mut bad = 0; let mut first = None;
    for (k, &p) in pos.iter().enumerate() {
        let r = catch_unwind(AssertUnwindSafe(|| da.select1(k)));
        if r.is_err() || r.unwrap() != Some(p) { bad += 1; if first.is_none() { first = Some(k); } }
    }
    println!("D10 DArray sparse+dense: wrong answers {} first at {:?}", bad, first);
    // D13 select usize::MAX
    let q = QWT256::new(&mut vec![1u8, 0, 1, 0, 2, 4, 5, 3]);
    t("D13 QWT256 select(1, usize::MAX) (expect None)", || q.select(1, usize::MAX));
    t("D13 QWT256 select(5, usize::MAX) (expect None)", || q.select(5, usize::MAX));
    // D4 u128
    let q = QWT256::new(&mut vec![1u128 << 70, 5, (1u128 << 70) + 1, 5]);
    t("D4 QWT256<u128> get(0) (expect 2^70)", || q.get(0));
    t("D4 QWT256<u128> rank(5,4) (expect 2)", || q.rank(5, 4));
    // D1 rank symbol 4
    let rs: RSQVector256 = (0..10u64).map(|x| x % 4).collect();
    t("D1 RSQVector256 rank(4,1) (expect None)", || rs.rank(4, 1));
    t("D1 RSQVector256 rank(200,1) (expect None)", || rs.rank(200, 1));
    // D2
    t("D2 RSQVector256 select_unchecked(0,0) (expect 0)", || unsafe { rs.select_unchecked(0, 0) });
    // D11
    let rn = RSNarrow::new(BitVector::default());
    t("D11 RSNarrow empty select1(0) (expect None)", || rn.select1(0));
    // D12
    let dd = DArray::<true>::default();
    t("D12 DArray<true>::default().select0(0) (expect None)", || dd.select0(0));
    let dr = RSQVector256::default();
    t("D1b RSQVector256::default().rank(0,0)", || dr.rank(0, 0));
}
