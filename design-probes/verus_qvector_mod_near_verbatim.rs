use vstd::prelude::*;
verus! {
global size_of usize == 8;
pub trait AccessQuad {
    fn get(&self, i: usize) -> Option<u8>;
    unsafe fn get_unchecked(&self, i: usize) -> u8;
}
pub trait RankQuad {
    fn rank(&self, symbol: u8, i: usize) -> Option<usize>;
    unsafe fn rank_unchecked(&self, symbol: u8, i: usize) -> usize;
}
pub trait SpaceUsage { fn space_usage_byte(&self) -> usize; }
impl<T> SpaceUsage for Box<[T]> where T: SpaceUsage {
    #[verifier::external_body]
    fn space_usage_byte(&self) -> usize { 0 }
}




// A quad vector is made of `DataLine`s. Each line consists of
// four u128, so each `DataLine` is 512 bits and fits in a cache line.
// This way, it is easier to force the alignment to 64 bytes.
//
// We support `access`, `rank`, and `select queries for each line.
#[derive(Copy, Clone, Default, Eq, PartialEq)]
#[repr(C, align(64))]
struct DataLine {
    words: [u128; 4],
}

impl DataLine {
    const MASK: u128 = 3;

    const REPEATEDSYMB: [u128; 2] = [
        u128::MAX, // !bit repeated
        0,
    ];

    fn normalize(&self, symbol: u8) -> (u128, u128) {
        let mask_high = Self::REPEATEDSYMB[(symbol >> 1) as usize];
        let mask_low = Self::REPEATEDSYMB[(symbol & 1) as usize];

        let word_high_0 = self.words[0] ^ mask_high;
        let word_low_0 = self.words[2] ^ mask_low;
        let word_high_1 = self.words[1] ^ mask_high;
        let word_low_1 = self.words[3] ^ mask_low;

        (word_high_0 & word_low_0, word_high_1 & word_low_1)
    }

    // Set the position `i` to `symbol`
    fn set_symbol(&mut self, symbol: u8, i: u8) {
        // The higher bit is placed in the first two words,
        // the lower bit is placed in the second two words.

        let word_id_high = i >> 7;
        let word_id_low = word_id_high + 2;
        let cur_shift = i & 127;

        let symbol = (symbol as u128) & Self::MASK;

        self.words[word_id_high as usize] |= (symbol >> 1) << cur_shift;
        self.words[word_id_low as usize] |= (symbol & 1) << cur_shift;
    }
}

impl AccessQuad for DataLine {
    fn get(&self, i: usize) -> Option<u8> {
        assert!(i < 256);
        // SAFETY: bounds already checked
        Some(unsafe { self.get_unchecked(i) })
    }

    unsafe fn get_unchecked(&self, i: usize) -> u8 {
        let word_id_high = i >> 7;
        let word_id_low = word_id_high + 2;
        let cur_shift = i & 127;

        let word_high = unsafe { *self.words.get_unchecked(word_id_high) };
        let word_low = unsafe { *self.words.get_unchecked(word_id_low) };

        ((word_high >> (cur_shift) & 1) << 1 | (word_low >> cur_shift) & 1) as u8
    }
}

impl RankQuad for DataLine {
    fn rank(&self, symbol: u8, i: usize) -> Option<usize> {
        if symbol >= 4 || i > 256 {
            return None;
        }

        // SAFETY: checks above guarantee correctness
        Some(unsafe { self.rank_unchecked(symbol, i) })
    }

    unsafe fn rank_unchecked(&self, symbol: u8, i: usize) -> usize {
        debug_assert!(symbol <= 3, "Only the four symbols in [0, 3] are possible.");
        debug_assert!(i <= 256, "Only positions up to 256 are possible");

        let (word_0, word_1) = self.normalize(symbol);

        let last_word = i >> 7;
        let offset = i & 127; // offset within the last word

        let mask_full = u128::MAX;
        let mask_offset = (1_u128 << offset) - 1;

        let mask = if last_word == 0 {
            mask_offset
        } else {
            mask_full
        };
        let mut rank = (word_0 & mask).count_ones();

        let mask = if last_word == 1 {
            mask_offset
        } else {
            mask_full * (last_word == 2) as u128
        };

        rank += (word_1 & mask).count_ones();

        rank as usize
    }
}

// The trait SelectQuad is not implemented because RSSupport needs to it by hand :-)

impl SpaceUsage for DataLine {
    fn space_usage_byte(&self) -> usize {
        64
    }
}

#[derive(Clone, Default, Eq, PartialEq)]
pub struct QVector {
    data: Box<[DataLine]>,
    position: usize,
}

impl QVector {
    pub fn is_empty(&self) -> bool {
        self.position == 0
    }

    pub fn len(&self) -> usize {
        self.position >> 1
    }

    pub fn iter(&self) -> QVectorIterator<&QVector> {
        QVectorIterator { i: 0, qv: self }
    }
}

impl AccessQuad for QVector {
    unsafe fn get_unchecked(&self, i: usize) -> u8 {
        debug_assert!(i < self.position / 2);

        let line = i >> 8;
        let pos_in_last_line = i & 255;
        let line = self.data.get_unchecked(line);

        line.get_unchecked(pos_in_last_line)
    }

    fn get(&self, i: usize) -> Option<u8> {
        if i >= self.position >> 1 {
            return None;
        }
        // SAFETY: Check before guarantees to be not out of bound
        unsafe { Some(self.get_unchecked(i)) }
    }
}

impl SpaceUsage for QVector {
    fn space_usage_byte(&self) -> usize {
        self.data.space_usage_byte() + 8
    }
}

impl AsRef<QVector> for QVector {
    fn as_ref(&self) -> &QVector {
        self
    }
}

pub struct QVectorIterator<QV: AsRef<QVector>> {
    i: usize,
    qv: QV,
}

impl<QV: AsRef<QVector>> Iterator for QVectorIterator<QV> {
    type Item = u8;
    fn next(&mut self) -> Option<Self::Item> {
        // TODO: this may be faster without calling get.
        let qv = self.qv.as_ref();
        self.i += 1;
        qv.get(self.i - 1)
    }
}

impl IntoIterator for QVector {
    type IntoIter = QVectorIterator<QVector>;
    type Item = u8;

    fn into_iter(self) -> Self::IntoIter {
        QVectorIterator { i: 0, qv: self }
    }
}

impl<'a> IntoIterator for &'a QVector {
    type IntoIter = QVectorIterator<&'a QVector>;
    type Item = u8;

    fn into_iter(self) -> Self::IntoIter {
        self.iter()
    }
}



#[derive(Clone, Default, Eq, PartialEq)]
pub struct QVectorBuilder {
    data: Vec<DataLine>,
    position: usize,
}

impl QVectorBuilder {
    const N_BITS_WORD: usize = 128 * 4;

    pub fn build(self) -> QVector {
        QVector {
            data: self.data.into_boxed_slice(),
            position: self.position,
        }
    }

    pub fn new() -> Self {
        Self::default()
    }

    pub fn with_capacity(n: usize) -> Self {
        let capacity = (2 * n + Self::N_BITS_WORD - 1) / Self::N_BITS_WORD;
        Self {
            data: Vec::with_capacity(capacity),
            position: 0,
        }
    }

    pub fn push(&mut self, symbol: u8) {
        let pos_in_last_line = (self.position / 2) & 255;
        if pos_in_last_line == 0 {
            // no more space in the current line
            self.data.push(DataLine::default());
        }

        self.data
            .last_mut()
            .unwrap()
            .set_symbol(symbol, pos_in_last_line as u8);

        self.position += 2;
    }
}







} // verus!
fn main() {}
