//! Witness search: differential runs of the REAL crate (compiled by plain cargo from /repo's working
//! tree) against naive oracles, on small / random inputs.  It only attaches a concrete failing input
//! to an obligation that a verifier has already failed; it decides nothing.
use qwt::*;
use rand::rngs::StdRng;
use rand::{Rng, SeedableRng};
use std::panic::{catch_unwind, AssertUnwindSafe};
use std::time::{Duration, Instant};

fn report(structure: &str, input: String, call: String, observed: String, expected: String) -> ! {
    println!(
        "{{\"found\":true,\"structure\":{:?},\"input\":{:?},\"call\":{:?},\"observed\":{:?},\"expected\":{:?}}}",
        structure, input, call, observed, expected
    );
    std::process::exit(0)
}

macro_rules! chk {
    ($st:expr, $inp:expr, $call:expr, $obs:expr, $exp:expr) => {{
        let o = catch_unwind(AssertUnwindSafe(|| $obs));
        let e = $exp;
        match o {
            Ok(v) => {
                if v != e {
                    report($st, $inp, $call, format!("{:?}", v), format!("{:?}", e));
                }
            }
            Err(_) => report($st, $inp, $call, "panic".to_string(), format!("{:?}", e)),
        }
    }};
}

fn gen_seq(rng: &mut StdRng, bits: u32) -> Vec<u128> {
    let shapes = [2usize, 3, 5, 17, 64, 128, 256, 512, 1024, 1536, 2048, 4096, 6144, 8192, 9000, 20000];
    // lengths just below, at and just above the block / superblock / sampling boundaries
    let n = if rng.gen_bool(0.5) { rng.gen_range(1..40) } else { shapes[rng.gen_range(0..shapes.len())] + rng.gen_range(0..4) - 1 };
    let kind = rng.gen_range(0..6);
    let maxbits = rng.gen_range(1..=bits);
    let top: u128 = if maxbits >= 128 { u128::MAX } else { (1u128 << maxbits) - 1 };
    let sigma_small = rng.gen_range(1..6) as u128;
    (0..n)
        .map(|i| match kind {
            0 => rng.gen::<u128>() & top,
            1 => (i as u128 % (sigma_small + 1)).min(top),
            2 => if rng.gen_bool(0.9) { top } else { rng.gen::<u128>() & top },
            3 => (rng.gen_range(0..4) as u128 * 4) & top,
            4 => if i < n / 2 { 0 } else { top },
            _ => (rng.gen::<u128>() & top) >> rng.gen_range(0..maxbits),
        })
        .collect()
}

macro_rules! tree_test {
    ($name:ident, $ty:ty, $elem:ty, $bits:expr, $label:expr, $has_max_rule:expr, $prefetch:expr) => {
        fn $name(rng: &mut StdRng) {
            if rng.gen_range(0..50) == 0 {
                // the empty sequence: every path builds an equal tree, every query answers None
                let e: Vec<$elem> = Vec::new();
                let built = catch_unwind(AssertUnwindSafe(|| (<$ty>::from(e.clone()), e.iter().copied().collect::<$ty>(), <$ty>::new(&mut []), <$ty>::default())));
                match built {
                    Ok((a, b, c, d)) => {
                        chk!($label, "[]".to_string(), "from(vec) == collect() == new(&mut [])".to_string(), (a == b, a == c), (true, true));
                        for t in [&a, &b, &c, &d] {
                            chk!($label, "[]".to_string(), "len/get/rank/select on the empty tree".to_string(),
                                 (t.len(), t.get(0), t.rank(0 as $elem, 0).unwrap_or(0), t.rank(0 as $elem, 1), t.select(0 as $elem, 0), t.select(3 as $elem, usize::MAX), t.iter().count()),
                                 (0, None, 0, None, None, None, 0));
                        }
                    }
                    Err(_) => report($label, "[]".into(), "from / collect / new / default on the empty sequence".into(), "panic".into(), "an empty tree".into()),
                }
            }
            let s: Vec<$elem> = gen_seq(rng, $bits).into_iter().map(|x| x as $elem).collect();
            let inp = if s.len() <= 40 { format!("{:?}", s) } else { format!("len {} first {:?} ... (seeded generator)", s.len(), &s[..8]) };
            let built = catch_unwind(AssertUnwindSafe(|| <$ty>::from(s.clone())));
            let t = match built { Ok(t) => t, Err(_) => report($label, inp, "from(vec)".into(), "panic".into(), "a tree".into()) };
            let n = s.len();
            chk!($label, inp.clone(), "len()".to_string(), t.len(), n);
            // C19: the construction paths and Clone give equal values (plain trees) / identical answers (Huffman)
            if n <= 3000 {
                let t2: $ty = s.iter().copied().filter(|_| true).collect();
                let mut s3 = s.clone();
                let t3 = <$ty>::new(&mut s3[..]);
                if $has_max_rule {
                    chk!($label, inp.clone(), "collect() == from(vec)".to_string(), t2 == t, true);
                    chk!($label, inp.clone(), "new(&mut slice) == from(vec)".to_string(), t3 == t, true);
                }
                chk!($label, inp.clone(), "clone() == self".to_string(), t.clone() == t, true);
                if n >= 2 && s[n - 1] != s[n - 2] {
                    let mut sw = s.clone(); sw.swap(n - 1, n - 2);
                    chk!($label, inp.clone(), "the tree of the sequence with its last two symbols swapped compares unequal".to_string(), <$ty>::from(sw) == t, false);
                }
                chk!($label, inp.clone(), "collect().iter() == from(vec).iter()".to_string(), t2.iter().collect::<Vec<_>>(), s.clone());
                chk!($label, inp.clone(), "new(slice).iter() == from(vec).iter()".to_string(), t3.iter().collect::<Vec<_>>(), s.clone());
            }
            let max = *s.iter().max().unwrap();
            for _ in 0..60 {
                let i = match rng.gen_range(0..6) { 0 => 0, 1 => n, 2 => n + 1, 3 => n.saturating_sub(1), 4 => usize::MAX - rng.gen_range(0..2), _ => rng.gen_range(0..=n) };
                chk!($label, inp.clone(), format!("get({})", i), t.get(i), s.get(i).copied());
                let c: $elem = match rng.gen_range(0..5) { 0 => s[rng.gen_range(0..n)], 1 => max, 2 => max.wrapping_add(1), 3 => rng.gen::<$elem>(), _ => s[rng.gen_range(0..n)] ^ 1 };
                let cnt_upto = |j: usize| s[..j.min(n)].iter().filter(|&&x| x == c).count();
                let occurs = s.iter().any(|&x| x == c);
                let exp_rank = if i > n { None } else if $has_max_rule { if c <= max { Some(cnt_upto(i)) } else { None } } else if occurs { Some(cnt_upto(i)) } else { None };
                chk!($label, inp.clone(), format!("rank({}, {})", c, i), t.rank(c, i), exp_rank);
                let total = cnt_upto(n);
                let k = match rng.gen_range(0..4) { 0 => total, 1 => usize::MAX, 2 => total.saturating_sub(1), _ => rng.gen_range(0..=total) };
                let exp_sel = s.iter().enumerate().filter(|(_, &x)| x == c).nth(k).map(|(p, _)| p);
                chk!($label, inp.clone(), format!("select({}, {})", c, k), t.select(c, k), exp_sel);
                // C10: the unchecked twins on arguments that satisfy their documented precondition
                if let Some(p) = exp_sel { chk!($label, inp.clone(), format!("select_unchecked({}, {})", c, k), unsafe { t.select_unchecked(c, k) }, p); }
                if let Some(r) = exp_rank { chk!($label, inp.clone(), format!("rank_unchecked({}, {})", c, i), unsafe { t.rank_unchecked(c, i) }, r); }
                if i < n { chk!($label, inp.clone(), format!("get_unchecked({})", i), unsafe { t.get_unchecked(i) }, s[i]); }
                if $prefetch { tree_prefetch(&t, c, i, &inp, $label, exp_rank); }
            }
            if n <= 3000 {
                chk!($label, inp.clone(), "iter().collect()".to_string(), t.iter().collect::<Vec<_>>(), s.clone());
                let k = rng.gen_range(0..n + 3);
                chk!($label, inp.clone(), format!("iter().nth({}) / count / last / len / nth_back", k), (t.iter().nth(k), t.iter().count(), t.iter().last(), t.iter().len(), t.iter().nth_back(k)), (s.get(k).copied(), n, s.last().copied(), n, if k < n { Some(s[n - 1 - k]) } else { None }));
                chk!($label, inp.clone(), "iter(): next, nth(usize::MAX), next".to_string(), { let mut it = t.iter(); let a = it.next(); let b = it.nth(usize::MAX); let c = it.next(); (a, b, c) }, (s.first().copied(), None, None));
                chk!($label, inp.clone(), "iter().rev().collect()".to_string(), t.iter().rev().collect::<Vec<_>>(), s.iter().rev().copied().collect::<Vec<_>>());
                // owned and by-reference IntoIterator, and a random interleaving of next / next_back with len() at every step
                chk!($label, inp.clone(), "clone().into_iter(): collect / len / last".to_string(), (t.clone().into_iter().collect::<Vec<_>>() == s, t.clone().into_iter().len(), t.clone().into_iter().next_back()), (true, n, s.last().copied()));
                chk!($label, inp.clone(), "(&t).into_iter(): collect / len".to_string(), ((&t).into_iter().collect::<Vec<_>>() == s, (&t).into_iter().len()), (true, n));
                let plan: Vec<bool> = (0..n + 2).map(|_| rng.gen_bool(0.5)).collect();
                chk!($label, inp.clone(), format!("iter(): interleaved next/next_back {:?}...", &plan[..plan.len().min(12)]), walk_both_ends(t.iter(), &s, &plan), None);
                chk!($label, inp.clone(), format!("clone().into_iter(): interleaved next/next_back {:?}...", &plan[..plan.len().min(12)]), walk_both_ends(t.clone().into_iter(), &s, &plan), None);
            }
        }
    };
}
/// drives an iterator from both ends following `plan` (true = next, false = next_back); first disagreement with the sequence
fn walk_both_ends<E: PartialEq + Copy + std::fmt::Debug, I: DoubleEndedIterator<Item = E> + ExactSizeIterator>(mut it: I, s: &[E], plan: &[bool]) -> Option<String> {
    let (mut lo, mut hi) = (0usize, s.len());
    for (step, &front) in plan.iter().enumerate() {
        if it.len() != hi - lo { return Some(format!("step {}: len() = {} but {} elements are left", step, it.len(), hi - lo)); }
        let got = if front { it.next() } else { it.next_back() };
        let exp = if lo < hi { if front { lo += 1; Some(s[lo - 1]) } else { hi -= 1; Some(s[hi]) } } else { None };
        if got != exp { return Some(format!("step {} ({}): {:?} instead of {:?}", step, if front { "next" } else { "next_back" }, got, exp)); }
    }
    None
}
trait HasPrefetch<E> { fn rp(&self, c: E, i: usize) -> Option<usize>; }
macro_rules! impl_pf { ($ty:ty, $e:ty) => { impl HasPrefetch<$e> for $ty { fn rp(&self, c: $e, i: usize) -> Option<usize> { self.rank_prefetch(c, i) } } } }
impl_pf!(QWT256<u8>, u8); impl_pf!(QWT512<u64>, u64); impl_pf!(QWT256Pfs<u64>, u64); impl_pf!(QWT512Pfs<u128>, u128); impl_pf!(QWT256<u128>, u128);
impl_pf!(HQWT256<u8>, u8); impl_pf!(HQWT512Pfs<u16>, u16);
impl HasPrefetch<u64> for WT<u64> { fn rp(&self, c: u64, i: usize) -> Option<usize> { self.rank(c, i) } }
impl HasPrefetch<u8> for WT<u8> { fn rp(&self, c: u8, i: usize) -> Option<usize> { self.rank(c, i) } }
impl HasPrefetch<u128> for WT<u128> { fn rp(&self, c: u128, i: usize) -> Option<usize> { self.rank(c, i) } }
impl HasPrefetch<u8> for HWT<u8> { fn rp(&self, c: u8, i: usize) -> Option<usize> { self.rank(c, i) } }
impl HasPrefetch<u16> for HWT<u16> { fn rp(&self, c: u16, i: usize) -> Option<usize> { self.rank(c, i) } }
fn tree_prefetch<E: Copy + std::fmt::Display, T: HasPrefetch<E>>(t: &T, c: E, i: usize, inp: &str, label: &str, exp: Option<usize>) {
    chk!(label, inp.to_string(), format!("rank_prefetch({}, {})", c, i), t.rp(c, i), exp);
}
/// `sigma()` (the largest symbol; None for the empty tree) of the plain quad trees (C01: "reports len = |S| and the largest symbol")
fn qwt_sigma(rng: &mut StdRng) {
    let s: Vec<u64> = gen_seq(rng, 64).into_iter().map(|x| x as u64).collect();
    let max = *s.iter().max().unwrap();
    let inp = if s.len() <= 40 { format!("{:?}", s) } else { format!("len {} max {}", s.len(), max) };
    let a = QWT256::<u64>::from(s.clone()); let b = QWT512Pfs::<u64>::from(s.clone());
    chk!("QWT256<u64>/QWT512Pfs<u64>", inp.clone(), "sigma() / len() / is_empty()".to_string(), (a.sigma(), b.sigma(), a.len(), b.len(), a.is_empty()), (Some(max), Some(max), s.len(), s.len(), false));
    let s8: Vec<u8> = s.iter().map(|&x| x as u8).collect();
    let m8 = *s8.iter().max().unwrap();
    let c = QWT256::<u8>::from(s8.clone());
    chk!("QWT256<u8>", format!("{:?}...", &s8[..s8.len().min(20)]), "sigma()".to_string(), c.sigma(), Some(m8));
    let e = QWT256::<u8>::from(Vec::<u8>::new()); let d = QWT512::<u64>::default();
    chk!("QWT256<u8>/QWT512<u64>", "empty / default".to_string(), "sigma() / is_empty()".to_string(), (e.sigma(), d.sigma(), e.is_empty(), d.is_empty()), (None, None, true, true));
}
tree_test!(qwt_a, QWT256<u8>, u8, 8, "QWT256<u8>", true, true);
tree_test!(qwt_b, QWT512<u64>, u64, 64, "QWT512<u64>", true, true);
tree_test!(qwt_c, QWT256Pfs<u64>, u64, 40, "QWT256Pfs<u64>", true, true);
tree_test!(qwt_d, QWT512Pfs<u128>, u128, 128, "QWT512Pfs<u128>", true, true);
tree_test!(qwt_e, QWT256<u128>, u128, 128, "QWT256<u128>", true, true);
tree_test!(wt_a, WT<u64>, u64, 64, "WT<u64>", true, true);
tree_test!(wt_b, WT<u8>, u8, 8, "WT<u8>", true, true);
tree_test!(wt_c, WT<u128>, u128, 128, "WT<u128>", true, true);
tree_test!(hwt_a, HWT<u8>, u8, 8, "HWT<u8>", false, true);
tree_test!(hwt_b, HWT<u16>, u16, 12, "HWT<u16>", false, true);
tree_test!(hq_a, HQWT256<u8>, u8, 8, "HQWT256<u8>", false, true);
tree_test!(hq_b, HQWT512Pfs<u16>, u16, 12, "HQWT512Pfs<u16>", false, true);

fn utils_test(rng: &mut StdRng) {
    use qwt::utils::*;
    // partitions, all element types / shifts
    macro_rules! part {
        ($t:ty, $bits:expr) => {{
            let n = rng.gen_range(0..40);
            let v: Vec<$t> = (0..n).map(|_| rng.gen::<$t>() >> rng.gen_range(0..$bits)).collect();
            let shift = rng.gen_range(0..$bits) as usize;
            let mut a = v.clone();
            let mut e = v.clone();
            e.sort_by_key(|x| (x >> shift) & 3);
            chk!("utils", format!("{:?} shift {} ({})", v, shift, stringify!($t)), "stable_partition_of_4".to_string(), { stable_partition_of_4(&mut a, shift); a.clone() }, e);
            let mut a = v.clone();
            let mut e = v.clone();
            e.sort_by_key(|x| (x >> shift) & 1);
            chk!("utils", format!("{:?} shift {} ({})", v, shift, stringify!($t)), "stable_partition_of_2".to_string(), { stable_partition_of_2(&mut a, shift); a.clone() }, e);
        }};
    }
    part!(u8, 8); part!(u16, 16); part!(u32, 32); part!(u64, 64); part!(u128, 128); part!(usize, 64);
    let w: u64 = match rng.gen_range(0..4) { 0 => u64::MAX, 1 => 0, 2 => rng.gen::<u64>() & rng.gen::<u64>(), _ => rng.gen() };
    let k = rng.gen_range(0..64u64);
    let exp = (0..64).filter(|b| (w >> b) & 1 == 1).nth(k as usize).unwrap_or(64) as u32;
    chk!("utils", format!("word {:#x}", w), format!("select_in_word(w, {})", k), select_in_word(w, k), exp);
    let hi: u64 = match rng.gen_range(0..3) { 0 => u64::MAX, 1 => 0, _ => rng.gen() };
    let w2: u128 = ((hi as u128) << 64) | (w as u128);
    let k2 = rng.gen_range(0..128u64);
    let exp = (0..128).filter(|b| (w2 >> b) & 1 == 1).nth(k2 as usize).unwrap_or(128) as u32;
    chk!("utils", format!("word {:#x}", w2), format!("select_in_word_u128(w, {})", k2), select_in_word_u128(w2, k2), exp);
    let v: u64 = rng.gen::<u64>() >> rng.gen_range(0..64);
    chk!("utils", format!("{}", v), "msb".to_string(), msb(v), if v == 0 { 0 } else { 63 - v.leading_zeros() });
    // text_remap: symbols renamed to 0..d in increasing order of their value; returns d
    let txt: Vec<u8> = { let n = rng.gen_range(0..40); let m = rng.gen_range(1..=255u8); (0..n).map(|_| rng.gen_range(0..=m)).collect() };
    let (exp_txt, exp_d) = { let mut u: Vec<u8> = txt.clone(); u.sort(); u.dedup(); (txt.iter().map(|c| u.binary_search(c).unwrap() as u8).collect::<Vec<u8>>(), u.len()) };
    chk!("utils", format!("{:?}", txt), "text_remap".to_string(), { let mut t = txt.clone(); let d = text_remap(&mut t); (t, d) }, (exp_txt, exp_d));
    // msb over every width
    let v128: u128 = rng.gen::<u128>() >> rng.gen_range(0..128);
    chk!("utils", format!("{}", v128), "msb::<u128>".to_string(), msb(v128), if v128 == 0 { 0 } else { 127 - v128.leading_zeros() });
    let v8: u8 = rng.gen::<u8>() >> rng.gen_range(0..8);
    chk!("utils", format!("{}", v8), "msb::<u8>".to_string(), msb(v8), if v8 == 0 { 0 } else { 7 - v8.leading_zeros() });
    let d: Vec<u64> = (0..rng.gen_range(0..10)).map(|_| rng.gen()).collect();
    chk!("utils", format!("{:?}", d), "popcnt_wide::<4>".to_string(), popcnt_wide::<4>(&d), d.iter().take(4).map(|x| x.count_ones() as usize).sum::<usize>());
    let pc = |k: usize| d.iter().take(k).map(|x| x.count_ones() as usize).sum::<usize>();
    chk!("utils", format!("{:?}", d), "popcnt_wide::<0> / <1> / <2> / <8> / <16>".to_string(), (popcnt_wide::<0>(&d), popcnt_wide::<1>(&d), popcnt_wide::<2>(&d), popcnt_wide::<8>(&d), popcnt_wide::<16>(&d)), (0, pc(1), pc(2), pc(8), pc(16)));
}

fn qvector_test(rng: &mut StdRng) {
    let n = match rng.gen_range(0..4) { 0 => rng.gen_range(0..10), 1 => 255 + rng.gen_range(0..4), 2 => 127 + rng.gen_range(0..4), _ => rng.gen_range(0..1200) };
    let vals: Vec<i16> = (0..n).map(|_| if rng.gen_bool(0.5) { rng.gen_range(0..4) } else { rng.gen() }).collect();
    let inp = if n <= 40 { format!("{:?}", vals) } else { format!("len {} first {:?}", n, &vals[..8]) };
    let mut b = QVectorBuilder::new();
    for &v in &vals { b.push(v as u8); }
    let qv = b.build();
    {
        let cap = match rng.gen_range(0..4) { 0 => 0, 1 => n, 2 => 256 * rng.gen_range(0..4usize), _ => rng.gen_range(0..2 * n + 2) };
        let mut bc = QVectorBuilder::with_capacity(cap);
        for &v in &vals { bc.push(v as u8); }
        let qc = bc.build();
        chk!("QVector", inp.clone(), format!("with_capacity({}) + push: (== new + push, len, is_empty)", cap), (qc == qv, qc.len(), qc.is_empty()), (true, n, n == 0));
    }
    let qv2: QVector = vals.iter().copied().collect();
    chk!("QVector", inp.clone(), "len()".to_string(), qv.len(), n);
    chk!("QVector", inp.clone(), "collect == push".to_string(), qv2 == qv, true);
    // iterators whose size_hint is not exact (lower bound 0, huge upper bound)
    let qv3: QVector = vals.iter().copied().filter(|_| true).collect();
    chk!("QVector", inp.clone(), "collect through filter (size_hint lower bound 0) == push".to_string(), qv3 == qv, true);
    let qv4: QVector = (0..(1u64 << 62)).take_while(|&x| (x as usize) < n).map(|x| vals[x as usize]).collect();
    chk!("QVector", inp.clone(), "collect through take_while over 0..2^62 (size_hint upper bound 2^62) == push".to_string(), qv4 == qv, true);
    let mut b5 = QVectorBuilder::new();
    if n > 0 { b5.push(vals[0] as u8); }
    b5.extend(vals.iter().copied().skip(1).filter(|_| true));
    chk!("QVector", inp.clone(), "push + extend through filter == push".to_string(), b5.build() == qv, true);
    for _ in 0..40 {
        let i = if rng.gen_range(0..8) == 0 { usize::MAX - rng.gen_range(0..3) } else if rng.gen_range(0..8) == 0 { 1usize << rng.gen_range(40..64) } else if n == 0 { rng.gen_range(0..3) } else { rng.gen_range(0..n + 2) };
        chk!("QVector", inp.clone(), format!("get({})", i), qv.get(i), vals.get(i).map(|&v| (v & 3) as u8));
        if i < n { chk!("QVector", inp.clone(), format!("get_unchecked({})", i), unsafe { qv.get_unchecked(i) }, (vals[i] & 3) as u8); }
    }
    chk!("QVector", inp.clone(), "iter().collect()".to_string(), qv.iter().collect::<Vec<u8>>(), vals.iter().map(|&v| (v & 3) as u8).collect::<Vec<u8>>());
    {
        // provided iterator methods must agree with the sequence too (an overriding `nth`, `count`, `last`, `size_hint` is code)
        let expv: Vec<u8> = vals.iter().map(|&v| (v & 3) as u8).collect();
        let k = rng.gen_range(0..n + 3);
        chk!("QVector", inp.clone(), format!("iter().nth({})", k), qv.iter().nth(k), expv.get(k).copied());
        chk!("QVector", inp.clone(), "iter(): next, nth(usize::MAX), next".to_string(), { let mut it = qv.iter(); let a = it.next(); let b = it.nth(usize::MAX); let c = it.next(); (a, b, c) }, (expv.first().copied(), None, None));
        chk!("QVector", inp.clone(), "iter().count() / last() / skip(1).count()".to_string(), (qv.iter().count(), qv.iter().last(), qv.iter().skip(1).count()), (n, expv.last().copied(), n.saturating_sub(1)));
    }
    let mut it = qv.into_iter();
    for _ in 0..n { it.next(); }
    chk!("QVector", inp.clone(), "into_iter next after end (twice)".to_string(), (it.next(), it.next()), (None, None));
}

fn bitvector_test(rng: &mut StdRng) {
    let mut model: Vec<bool> = Vec::new();
    let mut hist = String::new();
    // every way to get a fresh vector: new, with_capacity (empty), with_zeros, default
    let mut bv = match rng.gen_range(0..6) {
        0 => { let c = match rng.gen_range(0..3) { 0 => 0, 1 => 512 * rng.gen_range(0..3usize), _ => rng.gen_range(0..2000usize) }; hist += &format!("with_capacity({});", c); BitVectorMut::with_capacity(c) }
        1 => { let z = match rng.gen_range(0..3) { 0 => 0, 1 => 64 * rng.gen_range(0..20usize), _ => rng.gen_range(0..1500usize) }; hist += &format!("with_zeros({});", z); model.extend(std::iter::repeat(false).take(z)); BitVectorMut::with_zeros(z) }
        2 => { hist += "default();"; BitVectorMut::default() }
        _ => BitVectorMut::new(),
    };
    let steps = rng.gen_range(1..40);
    for _ in 0..steps {
        let op = rng.gen_range(0..7);
        match op {
            6 => { hist += "shrink_to_fit();"; bv.shrink_to_fit(); }
            0 => { let b = rng.gen(); hist += &format!("push({});", b); model.push(b); bv.push(b); }
            1 => { let len = rng.gen_range(0..=64usize); let bits: u64 = if len == 64 { rng.gen() } else { rng.gen::<u64>() & ((1u64 << len) - 1) };
                   hist += &format!("append_bits({:#x},{});", bits, len); for t in 0..len { model.push((bits >> t) & 1 == 1); } bv.append_bits(bits, len); }
            2 => { let n = match rng.gen_range(0..3) { 0 => 512 - (model.len() % 512), 1 => rng.gen_range(0..70), _ => rng.gen_range(0..1100) }; hist += &format!("extend_with_zeros({});", n); model.extend(std::iter::repeat(false).take(n)); bv.extend_with_zeros(n); }
            3 => { if !model.is_empty() { let i = rng.gen_range(0..model.len()); let b = rng.gen(); hist += &format!("set({},{});", i, b); model[i] = b; bv.set(i, b); } }
            4 => { if !model.is_empty() { let len = rng.gen_range(0..=64usize.min(model.len())); let i = rng.gen_range(0..=model.len() - len);
                   let bits: u64 = if len == 64 { rng.gen() } else { rng.gen::<u64>() & ((1u64 << len) - 1) };
                   hist += &format!("set_bits({},{},{:#x});", i, len, bits); for t in 0..len { model[i + t] = (bits >> t) & 1 == 1; } bv.set_bits(i, len, bits); } }
            _ => { let frozen: BitVector = bv.clone().into(); bv = frozen.into(); hist += "into BitVector and back;"; }
        }
        let n = model.len();
        chk!("BitVectorMut", hist.clone(), "len()".to_string(), bv.len(), n);
        chk!("BitVectorMut", hist.clone(), "count_ones()".to_string(), bv.count_ones(), model.iter().filter(|&&b| b).count());
        chk!("BitVectorMut", hist.clone(), "count_zeros()".to_string(), bv.count_zeros(), model.iter().filter(|&&b| !b).count());
        for _ in 0..6 {
            let i = rng.gen_range(0..n + 2);
            chk!("BitVectorMut", hist.clone(), format!("get({})", i), bv.get(i), model.get(i).copied());
            if i < n { chk!("BitVectorMut", hist.clone(), format!("get_unchecked({})", i), unsafe { bv.get_unchecked(i) }, model[i]); }
            let len = rng.gen_range(1..=64usize);
            if i + len < n { // (the last window is a recorded known finding of BitVectorMut::get_bits)
                let exp: u64 = (0..len).map(|t| (model[i + t] as u64) << t).sum();
                chk!("BitVectorMut", hist.clone(), format!("get_bits({},{})", i, len), bv.get_bits(i, len), Some(exp));
                chk!("BitVectorMut", hist.clone(), format!("get_bits_unchecked({},{})", i, len), unsafe { bv.get_bits_unchecked(i, len) }, exp);
            }
        }
        if n > 0 {
            let w = rng.gen_range(0..(n + 63) / 64);
            let exp: u64 = (0..64).map(|t| ((w * 64 + t < n && model[w * 64 + t]) as u64) << t).sum();
            chk!("BitVectorMut", hist.clone(), format!("get_word({})", w), bv.get_word(w), exp);
        }
    }
    let n = model.len();
    chk!("BitVectorMut", hist.clone(), "iter().collect()".to_string(), bv.iter().collect::<Vec<bool>>(), model.clone());
    {
        let k = rng.gen_range(0..n + 3);
        chk!("BitVectorMut", hist.clone(), format!("iter().nth({}) / count / last / len", k), (bv.iter().nth(k), bv.iter().count(), bv.iter().last(), bv.iter().len()), (model.get(k).copied(), n, model.last().copied(), n));
        chk!("BitVectorMut", hist.clone(), "iter(): next, nth(usize::MAX), next".to_string(), { let mut it = bv.iter(); let a = it.next(); let b = it.nth(usize::MAX); let c = it.next(); (a, b, c) }, (model.first().copied(), None, None));
        chk!("BitVectorMut", hist.clone(), format!("ones().nth({}) / zeros().count()", k), (bv.ones().nth(k), bv.zeros().count()), ((0..n).filter(|&i| model[i]).nth(k), (0..n).filter(|&i| !model[i]).count()));
    }
    chk!("BitVectorMut", hist.clone(), "ones().collect()".to_string(), bv.ones().collect::<Vec<usize>>(), (0..n).filter(|&i| model[i]).collect::<Vec<usize>>());
    chk!("BitVectorMut", hist.clone(), "zeros().collect()".to_string(), bv.zeros().collect::<Vec<usize>>(), (0..n).filter(|&i| !model[i]).collect::<Vec<usize>>());
    let p = rng.gen_range(0..n + 3);
    chk!("BitVectorMut", hist.clone(), format!("ones_with_pos({}).collect()", p), bv.ones_with_pos(p).collect::<Vec<usize>>(), (p.min(n)..n).filter(|&i| model[i]).collect::<Vec<usize>>());
    let from_pos: BitVectorMut = (0..n).filter(|&i| model[i]).collect();
    chk!("BitVectorMut", hist.clone(), "collected from the positions of the ones: same ones".to_string(), from_pos.ones().collect::<Vec<usize>>(), (0..n).filter(|&i| model[i]).collect::<Vec<usize>>());
    {
        // C19: bool-based and position-based constructors give equal vectors (the latter ends at the last one)
        let shapes = [1usize, 63, 64, 65, 511, 512, 513, 1023, 1024, 1025, 1536];
        let m = shapes[rng.gen_range(0..shapes.len())];
        let mut bits: Vec<bool> = (0..m).map(|_| rng.gen_bool(0.3)).collect();
        bits[m - 1] = true;
        let pos: Vec<usize> = (0..m).filter(|&i| bits[i]).collect();
        let a: BitVectorMut = bits.iter().copied().collect();
        let b: BitVectorMut = pos.iter().copied().collect();
        chk!("BitVectorMut", format!("len {} ones at {:?}...", m, &pos[..pos.len().min(5)]), "from positions == from bools".to_string(), a == b, true);
        let ai: BitVector = bits.iter().copied().collect();
        let bi: BitVector = pos.iter().copied().collect();
        chk!("BitVector", format!("len {} ones at {:?}...", m, &pos[..pos.len().min(5)]), "from positions == from bools".to_string(), ai == bi, true);
        chk!("BitVector", format!("len {}", m), "clone == self, into/from round trip".to_string(), (ai.clone() == ai, BitVector::from(BitVectorMut::from(ai.clone())) == ai), (true, true));
    }
    {
        // C19: position lists in any order, with repetitions: same vector whatever the path; different vectors are unequal
        let m = [5usize, 64, 65, 130, 513, 700][rng.gen_range(0..6)];
        let cnt = rng.gen_range(1..8);
        let ps: Vec<usize> = (0..cnt).map(|_| rng.gen_range(0..m)).collect();
        let top = *ps.iter().max().unwrap();
        let mut bits = vec![false; top + 1];
        for &p in &ps { bits[p] = true; }
        let from_bools: BitVector = bits.iter().copied().collect();
        let via_mut: BitVector = ps.iter().copied().collect::<BitVectorMut>().into();
        let direct: BitVector = ps.iter().copied().collect();
        let direct16: BitVector = ps.iter().map(|&p| p as u16).collect();
        let label = format!("positions {:?}", ps);
        chk!("BitVector", label.clone(), "collect::<BitVectorMut>().into() == from bools".to_string(), via_mut == from_bools, true);
        chk!("BitVector", label.clone(), "collect::<BitVector>() (usize, u16) == from bools".to_string(), (direct == from_bools, direct16 == from_bools), (true, true));
        chk!("BitVector", label.clone(), "count_ones of the position-built vectors".to_string(), (via_mut.count_ones(), direct.count_ones()), (bits.iter().filter(|&&b| b).count(), bits.iter().filter(|&&b| b).count()));
        let mut ext = BitVectorMut::new();
        ext.extend(ps.iter().copied()); ext.extend(ps.iter().copied());
        chk!("BitVectorMut", label.clone(), "extend with the same positions twice".to_string(), (BitVector::from(ext.clone()) == from_bools, ext.count_ones()), (true, bits.iter().filter(|&&b| b).count()));
        // two vectors that differ only in their last (partial) word, same length and same number of ones
        if top >= 2 {
            let mut other = bits.clone();
            if let Some(z) = (0..top).rev().find(|&i| !other[i]) { other[z] = true; other[top] = false; other.truncate(top + 1);
                let o: BitVector = other.iter().copied().collect();
                chk!("BitVector", label.clone(), "a vector with one one moved inside the last word compares unequal".to_string(), o == from_bools, false);
                chk!("RSWide/RSNarrow/DArray", label.clone(), "structures over different vectors compare unequal".to_string(),
                     (RSWide::new(o.clone()) == RSWide::new(from_bools.clone()), RSNarrow::new(o.clone()) == RSNarrow::new(from_bools.clone()), DArray::<true>::new(o.clone()) == DArray::<true>::new(from_bools.clone())), (false, false, false));
            }
        }
    }
    let filtered: BitVectorMut = model.iter().copied().filter(|_| true).collect();
    chk!("BitVectorMut", hist.clone(), "collect through filter == the vector".to_string(), filtered == bv, true);
    let rebuilt: BitVectorMut = model.iter().copied().collect();
    chk!("BitVectorMut", hist.clone(), "== vector collected from the same bools".to_string(), rebuilt == bv, true);
    let imm: BitVector = bv.clone().into();
    for &(i, len) in &[(usize::MAX, 1usize), (usize::MAX, 64), (usize::MAX - 63, 64), (usize::MAX / 2 + 1, 2), (0, 0), (0, 65), (0, usize::MAX), (n, 1), (n.saturating_sub(1), 2)] {
        let ok = len >= 1 && len <= 64 && i.checked_add(len).map_or(false, |e| e <= n);
        if !ok {
            chk!("BitVector", hist.clone(), format!("get_bits({},{})", i, len), imm.get_bits(i, len), None);
            chk!("BitVectorMut", hist.clone(), format!("get_bits({},{})", i, len), bv.get_bits(i, len), None);
        }
        chk!("BitVector", hist.clone(), format!("get({})", i), imm.get(i), model.get(i).copied());
        chk!("BitVectorMut", hist.clone(), format!("get({})", i), bv.get(i), model.get(i).copied());
    }
    {
        let d = BitVector::default(); let dm = BitVectorMut::default();
        chk!("BitVector", "default()".to_string(), "len/get/get_bits/count/ones on the default vector".to_string(),
             (d.len(), d.get(0), d.get_bits(0, 1), d.count_ones(), d.ones().count(), d.zeros().count(), dm.len(), dm.get(usize::MAX), dm.get_bits(usize::MAX, 1), dm.iter().count()),
             (0, None, None, 0, 0, 0, 0, None, None, 0));
    }
    for _ in 0..10 {
        let len = rng.gen_range(1..=64usize); let i = rng.gen_range(0..n + 2);
        let exp = if i + len <= n { Some((0..len).map(|t| (model[i + t] as u64) << t).sum::<u64>()) } else { None };
        chk!("BitVector", hist.clone(), format!("get_bits({},{})", i, len), imm.get_bits(i, len), exp);
        if let Some(e) = exp { chk!("BitVector", hist.clone(), format!("get_bits_unchecked({},{})", i, len), unsafe { imm.get_bits_unchecked(i, len) }, e); }
    }
    let mut it = imm.into_iter();
    for _ in 0..n { it.next(); }
    chk!("BitVector", hist.clone(), "into_iter: next/len after exhaustion".to_string(), (it.next(), it.len(), it.next(), it.len()), (None, 0, None, 0));
}

fn gen_quads(rng: &mut StdRng) -> Vec<u8> {
    let shapes = [0usize, 1, 127, 128, 255, 256, 257, 511, 512, 513, 2047, 2048, 2049, 4095, 4096, 4097, 8191, 8192, 8193, 20000, 33000, 70000];
    let n = shapes[rng.gen_range(0..shapes.len())] + if rng.gen_bool(0.3) { rng.gen_range(0..5) } else { 0 };
    let kind = rng.gen_range(0..5);
    (0..n).map(|i| match kind { 0 => rng.gen_range(0..4), 1 => (i % 4) as u8, 2 => if rng.gen_bool(0.001) { 3 } else { 1 }, 3 => if i < n / 2 { 0 } else { 2 }, _ => rng.gen_range(0..2) * 3 }).collect()
}
macro_rules! rsq_test {
    ($name:ident, $ty:ty, $label:expr) => {
        fn $name(rng: &mut StdRng) {
            let q = gen_quads(rng);
            let n = q.len();
            let inp = if n <= 40 { format!("{:?}", q) } else { format!("len {} kind-seeded first {:?}", n, &q[..8]) };
            let built = catch_unwind(AssertUnwindSafe(|| <$ty>::new(&q.iter().map(|&x| x as u64).collect::<Vec<u64>>())));
            let r = match built { Ok(t) => t, Err(_) => report($label, inp, "new".into(), "panic".into(), "a vector".into()) };
            chk!($label, inp.clone(), "len()".to_string(), r.len(), n);
            if n <= 5000 {
                let qv: QVector = q.iter().copied().collect();
                chk!($label, inp.clone(), "from(QVector) == new(slice)".to_string(), <$ty>::from(qv) == r, true);
                let r2: $ty = q.iter().copied().collect();
                chk!($label, inp.clone(), "collect() == new(slice)".to_string(), r2 == r, true);
                chk!($label, inp.clone(), "clone() == self".to_string(), r.clone() == r, true);
            }
            let mut pref = vec![[0usize; 4]; n + 1];
            for i in 0..n { pref[i + 1] = pref[i]; pref[i + 1][q[i] as usize] += 1; }
            for s in 0..6u8 {
                let tot = if s < 4 { Some(pref[n][s as usize]) } else { None };
                chk!($label, inp.clone(), format!("occs({})", s), r.occs(s), tot);
                chk!($label, inp.clone(), format!("occs_smaller({})", s), r.occs_smaller(s), if s < 4 { Some((0..s as usize).map(|t| pref[n][t]).sum()) } else { None });
            }
            {
                let d = <$ty>::default();
                chk!($label, "default()".to_string(), "len/get/rank/select/occs on the default vector".to_string(),
                     (d.len(), d.get(0), d.rank(0, 1), d.rank(1, 0).unwrap_or(0), d.select(0, 0), d.select(3, usize::MAX), d.occs(2).unwrap_or(0), d.rank(4, 0)),
                     (0, None, None, 0, None, None, 0, None));
            }
            for _ in 0..200 {
                let s: u8 = if rng.gen_bool(0.9) { rng.gen_range(0..4) } else { rng.gen() };
                let i = match rng.gen_range(0..5) { 0 => n, 1 => n + 1, 2 => (rng.gen_range(0..=n / 256 + 1) * 256).min(n + 1), 3 => usize::MAX - rng.gen_range(0..2), _ => rng.gen_range(0..=n) };
                chk!($label, inp.clone(), format!("rank({}, {})", s, i), r.rank(s, i), if s < 4 && i <= n { Some(pref[i][s as usize]) } else { None });
                chk!($label, inp.clone(), format!("get({})", i), r.get(i), q.get(i).copied());
                let tot = if s < 4 { pref[n][s as usize] } else { 0 };
                let k = match rng.gen_range(0..5) { 0 => tot, 1 => usize::MAX, 2 => tot.saturating_sub(1), 3 => (rng.gen_range(0..=tot / 8192 + 1) * 8192).saturating_sub(rng.gen_range(0..2)), _ => rng.gen_range(0..=tot) };
                let exp = if s < 4 && k < tot { Some(pref.partition_point(|p| p[s as usize] <= k) - 1) } else { None };
                chk!($label, inp.clone(), format!("select({}, {})", s, k), r.select(s, k), exp);
                if let Some(p) = exp { chk!($label, inp.clone(), format!("select_unchecked({}, {})", s, k), unsafe { r.select_unchecked(s, k) }, p); }
                if s < 4 && i <= n { chk!($label, inp.clone(), format!("rank_unchecked({}, {})", s, i), unsafe { r.rank_unchecked(s, i) }, pref[i][s as usize]); }
                if i < n { chk!($label, inp.clone(), format!("get_unchecked({})", i), unsafe { r.get_unchecked(i) }, q[i]); }
                if s < 4 { chk!($label, inp.clone(), format!("occs_unchecked({})", s), unsafe { r.occs_unchecked(s) }, pref[n][s as usize]);
                           chk!($label, inp.clone(), format!("occs_smaller_unchecked({})", s), unsafe { r.occs_smaller_unchecked(s) }, (0..s as usize).map(|t| pref[n][t]).sum::<usize>()); }
            }
        }
    };
}
rsq_test!(rsq_a, RSQVector256, "RSQVector256");
rsq_test!(rsq_b, RSQVector512, "RSQVector512");

fn gen_bits(rng: &mut StdRng) -> Vec<bool> {
    let shapes = [0usize, 1, 63, 64, 65, 511, 512, 513, 4095, 4096, 4097, 32767, 32768, 32769, 70000, 140000];
    let n = shapes[rng.gen_range(0..shapes.len())] + if rng.gen_bool(0.3) { rng.gen_range(0..5) } else { 0 };
    let kind = rng.gen_range(0..6);
    (0..n).map(|i| match kind { 0 => rng.gen(), 1 => true, 2 => false, 3 => rng.gen_bool(0.001), 4 => i < n / 2, _ => rng.gen_bool(0.97) }).collect()
}
macro_rules! rsbin_test {
    ($name:ident, $ty:ty, $label:expr) => {
        fn $name(rng: &mut StdRng) {
            let b = gen_bits(rng);
            let n = b.len();
            let inp = if n <= 70 { format!("{:?}", b.iter().map(|&x| x as u8).collect::<Vec<u8>>()) } else { format!("len {} ones {}", n, b.iter().filter(|&&x| x).count()) };
            let bv: BitVector = b.iter().copied().collect();
            let bv2 = bv.clone();
            let built = catch_unwind(AssertUnwindSafe(|| <$ty>::new(bv)));
            let r = match built { Ok(t) => t, Err(_) => report($label, inp, "new".into(), "panic".into(), "a structure".into()) };
            if n <= 5000 { chk!($label, inp.clone(), "from(BitVector) == new(BitVector), clone == self".to_string(), (<$ty>::from(bv2) == r, r.clone() == r), (true, true)); }
            let mut pref = vec![0usize; n + 1];
            for i in 0..n { pref[i + 1] = pref[i] + b[i] as usize; }
            let ones = pref[n];
            chk!($label, inp.clone(), "n_ones()".to_string(), r.n_ones(), ones);
            chk!($label, inp.clone(), "n_zeros()".to_string(), RankBin::n_zeros(&r), n - ones);
            {
                let d = <$ty>::default();
                chk!($label, "default()".to_string(), "get/rank/select/totals on the default structure".to_string(),
                     (d.get(0), d.rank1(0).unwrap_or(0), d.rank1(1), d.rank0(0).unwrap_or(0), d.select1(0), d.select0(0), d.select1(usize::MAX), d.n_ones(), RankBin::n_zeros(&d)),
                     (None, 0, None, 0, None, None, None, 0, 0));
            }
            for _ in 0..200 {
                let i = match rng.gen_range(0..5) { 0 => n, 1 => n + 1, 2 => (rng.gen_range(0..=n / 512 + 1) * 512).min(n + 1), 3 => usize::MAX - rng.gen_range(0..2), _ => rng.gen_range(0..=n) };
                if n > 0 {
                    chk!($label, inp.clone(), format!("rank1({})", i), r.rank1(i), if i <= n { Some(pref[i]) } else { None });
                    chk!($label, inp.clone(), format!("rank0({})", i), r.rank0(i), if i <= n { Some(i - pref[i]) } else { None });
                } else {
                    chk!($label, inp.clone(), format!("rank1({}) on empty yields no non-zero count", i), r.rank1(i).unwrap_or(0), 0);
                }
                chk!($label, inp.clone(), format!("get({})", i), r.get(i), b.get(i).copied());
                let k = match rng.gen_range(0..5) { 0 => ones, 1 => usize::MAX, 2 => ones.saturating_sub(1), 3 => (rng.gen_range(0..=ones / 1024 + 1) * 1024).saturating_sub(rng.gen_range(0..2)), _ => rng.gen_range(0..=ones) };
                let exp = if k < ones { Some(pref.partition_point(|&p| p <= k) - 1) } else { None };
                chk!($label, inp.clone(), format!("select1({})", k), r.select1(k), exp);
                let zeros = n - ones;
                let k0 = match rng.gen_range(0..4) { 0 => zeros, 1 => usize::MAX, 2 => zeros.saturating_sub(1), _ => rng.gen_range(0..=zeros) };
                let exp0 = if k0 < zeros { Some((0..=n).collect::<Vec<_>>().partition_point(|&p| p - pref[p] <= k0) - 1) } else { None };
                chk!($label, inp.clone(), format!("select0({})", k0), r.select0(k0), exp0);
                if let Some(p) = exp { chk!($label, inp.clone(), format!("select1_unchecked({})", k), unsafe { r.select1_unchecked(k) }, p); }
                if let Some(p) = exp0 { chk!($label, inp.clone(), format!("select0_unchecked({})", k0), unsafe { r.select0_unchecked(k0) }, p); }
                if n > 0 && i <= n { chk!($label, inp.clone(), format!("rank1_unchecked({})", i), unsafe { r.rank1_unchecked(i) }, pref[i]);
                                     chk!($label, inp.clone(), format!("rank0_unchecked({})", i), unsafe { r.rank0_unchecked(i) }, i - pref[i]); }
                if i < n { chk!($label, inp.clone(), format!("get_unchecked({})", i), unsafe { r.get_unchecked(i) }, b[i]); }
            }
        }
    };
}
rsbin_test!(rswide_t, RSWide, "RSWide");
rsbin_test!(rsnarrow_t, RSNarrow, "RSNarrow");

fn darray_test(rng: &mut StdRng) {
    // groups of 1024 ones: dense (< 65536 apart), sparse, threshold, partial last
    let groups = rng.gen_range(1..5);
    let mut pos: Vec<usize> = Vec::new();
    let mut cur = rng.gen_range(0..100usize);
    for g in 0..groups {
        let cnt = if g + 1 == groups && rng.gen_bool(0.5) { rng.gen_range(1..1024) } else { 1024 };
        let span = match rng.gen_range(0..4) { 0 => 1024, 1 => 65535, 2 => 65536, _ => 200000 };
        let mut offs: Vec<usize> = if span == cnt { (0..cnt).collect() } else { let mut o: Vec<usize> = (0..cnt - 1).map(|_| rng.gen_range(0..span)).collect(); o.push(0); o.push(span); o.sort(); o.dedup(); o.truncate(cnt); o };
        if span >= cnt { if let Some(l) = offs.last_mut() { if rng.gen_bool(0.7) { *l = span; } } offs.sort(); offs.dedup(); }
        for o in &offs { pos.push(cur + o); }
        cur = pos.last().unwrap() + 1 + rng.gen_range(0..10);
    }
    pos.dedup();
    let n = pos.last().map(|p| p + 1).unwrap_or(0);
    let inp = format!("{} ones, len {}, first {:?}", pos.len(), n, &pos[..pos.len().min(6)]);
    let built = catch_unwind(AssertUnwindSafe(|| pos.iter().copied().collect::<DArray<true>>()));
    let da = match built { Ok(d) => d, Err(_) => report("DArray<true>", inp, "collect".into(), "panic".into(), "a DArray".into()) };
    {
        let bools: Vec<bool> = { let mut v = vec![false; n]; for &p in &pos { v[p] = true; } v };
        let db: DArray<true> = bools.iter().copied().collect();
        chk!("DArray<true>", inp.clone(), "collect from bools == collect from positions".to_string(), db == da, true);
        let bvv: BitVector = pos.iter().copied().collect();
        chk!("DArray<true>", inp.clone(), "new(BitVector) == collect, clone == self".to_string(), (DArray::<true>::new(bvv) == da, da.clone() == da), (true, true));
    }
    {
        let d1 = DArray::<true>::default(); let d0 = DArray::<false>::default();
        chk!("DArray", "default()".to_string(), "len/count/select/get on the default structures".to_string(),
             (d1.len(), d1.count_ones(), d1.count_zeros(), d1.select1(0), d1.select0(0), d1.select0(usize::MAX), d1.get(0), d0.len(), d0.select1(0), d0.select1(usize::MAX), d0.get(usize::MAX), d1.clone() == d1),
             (0, 0, 0, None, None, None, None, 0, None, None, None, true));
        let e: DArray<true> = Vec::<usize>::new().into_iter().collect();
        chk!("DArray", "collect of no positions".to_string(), "select/len".to_string(), (e.len(), e.select1(0), e.select0(0)), (0, None, None));
    }
    {
        // bit vectors given as bits: all-zero, all-one, trailing zeros, lengths at word/block boundaries
        let nb = match rng.gen_range(0..6) { 0 => rng.gen_range(0..8usize), 1 => 64 * rng.gen_range(1..40usize), 2 => 1024 * rng.gen_range(1..4usize) + rng.gen_range(0..2usize), _ => rng.gen_range(1..3000usize) };
        let dens = match rng.gen_range(0..5) { 0 => 0.0, 1 => 1.0, 2 => 0.01, 3 => 0.99, _ => 0.5 };
        let mut bits: Vec<bool> = (0..nb).map(|_| rng.gen_bool(dens)).collect();
        if rng.gen_bool(0.5) { let t = rng.gen_range(0..=nb.min(200)); for b in bits.iter_mut().rev().take(t) { *b = false; } }
        let lab = format!("bits (len {}, ones at {:?}...)", nb, bits.iter().enumerate().filter(|(_, b)| **b).map(|(i, _)| i).take(8).collect::<Vec<_>>());
        let p1: Vec<usize> = (0..nb).filter(|&i| bits[i]).collect();
        let p0: Vec<usize> = (0..nb).filter(|&i| !bits[i]).collect();
        let d: DArray<true> = bits.iter().copied().collect();
        let bvb: BitVector = bits.iter().copied().collect();
        let d2 = DArray::<true>::new(bvb.clone());
        let dn = DArray::<false>::new(bvb);
        chk!("DArray<true>", lab.clone(), "collect from bools: (len, count_ones, count_zeros, is_empty)".to_string(), (d.len(), d.count_ones(), d.count_zeros(), d.is_empty()), (nb, p1.len(), p0.len(), nb == 0));
        chk!("DArray<true>", lab.clone(), "new(BitVector): (len, count_ones, count_zeros), == collect".to_string(), (d2.len(), d2.count_ones(), d2.count_zeros(), d2 == d), (nb, p1.len(), p0.len(), true));
        chk!("DArray<false>", lab.clone(), "new(BitVector): (len, count_ones, count_zeros)".to_string(), (dn.len(), dn.count_ones(), dn.count_zeros()), (nb, p1.len(), p0.len()));
        chk!("DArray<true>", lab.clone(), "ones() / zeros()".to_string(), (d.ones().collect::<Vec<_>>() == p1, d.zeros().collect::<Vec<_>>() == p0, d.iter().collect::<Vec<_>>() == bits), (true, true, true));
        let w = rng.gen_range(0..nb + 2);
        chk!("DArray<true>", lab.clone(), format!("ones_with_pos({}) / zeros_with_pos({})", w, w), (d.ones_with_pos(w).collect::<Vec<_>>() == p1.iter().copied().filter(|&p| p >= w).collect::<Vec<_>>(), d.zeros_with_pos(w).collect::<Vec<_>>() == p0.iter().copied().filter(|&p| p >= w).collect::<Vec<_>>()), (true, true));
        for _ in 0..40 {
            let k = match rng.gen_range(0..4) { 0 => p1.len(), 1 => p1.len().saturating_sub(1), _ => rng.gen_range(0..=p1.len()) };
            let k0 = match rng.gen_range(0..4) { 0 => p0.len(), 1 => p0.len().saturating_sub(1), _ => rng.gen_range(0..=p0.len()) };
            chk!("DArray<true>", lab.clone(), format!("select1({})", k), (d.select1(k), d2.select1(k), dn.select1(k)), (p1.get(k).copied(), p1.get(k).copied(), p1.get(k).copied()));
            chk!("DArray<true>", lab.clone(), format!("select0({})", k0), (d.select0(k0), d2.select0(k0)), (p0.get(k0).copied(), p0.get(k0).copied()));
            let gi = rng.gen_range(0..nb + 2);
            chk!("DArray<true>", lab.clone(), format!("get({})", gi), (d.get(gi), dn.get(gi)), (bits.get(gi).copied(), bits.get(gi).copied()));
        }
    }
    chk!("DArray<true>", inp.clone(), "count_ones()".to_string(), da.count_ones(), pos.len());
    chk!("DArray<true>", inp.clone(), "len()".to_string(), da.len(), n);
    let zeros: Vec<usize> = { let mut z = Vec::new(); let mut j = 0; for i in 0..n { if j < pos.len() && pos[j] == i { j += 1; } else { z.push(i); } } z };
    for _ in 0..300 {
        let k = match rng.gen_range(0..5) { 0 => pos.len(), 1 => usize::MAX, 2 => pos.len().saturating_sub(1), 3 => (rng.gen_range(0..=pos.len() / 1024) * 1024 + rng.gen_range(0..33)).min(pos.len()), _ => rng.gen_range(0..=pos.len()) };
        chk!("DArray<true>", inp.clone(), format!("select1({})", k), da.select1(k), pos.get(k).copied());
        let k0 = match rng.gen_range(0..4) { 0 => zeros.len(), 1 => usize::MAX, _ => rng.gen_range(0..=zeros.len()) };
        chk!("DArray<true>", inp.clone(), format!("select0({})", k0), da.select0(k0), zeros.get(k0).copied());
        if k < pos.len() { chk!("DArray<true>", inp.clone(), format!("select1_unchecked({})", k), unsafe { da.select1_unchecked(k) }, pos[k]); }
        if k0 < zeros.len() { chk!("DArray<true>", inp.clone(), format!("select0_unchecked({})", k0), unsafe { da.select0_unchecked(k0) }, zeros[k0]); }
        let gi = rng.gen_range(0..n + 2);
        chk!("DArray<true>", inp.clone(), format!("get({})", gi), da.get(gi), if gi < n { Some(pos.binary_search(&gi).is_ok()) } else { None });
        if gi < n { chk!("DArray<true>", inp.clone(), format!("get_unchecked({})", gi), unsafe { da.get_unchecked(gi) }, pos.binary_search(&gi).is_ok()); }
    }
}

fn main() {
    let args: Vec<String> = std::env::args().collect();
    let what = args.get(1).map(|s| s.as_str()).unwrap_or("all");
    let secs: u64 = args.get(2).and_then(|s| s.parse().ok()).unwrap_or(30);
    let seed: u64 = args.get(3).and_then(|s| s.parse().ok()).unwrap_or(1);
    std::panic::set_hook(Box::new(|_| {}));
    let mut rng = StdRng::seed_from_u64(seed);
    let t0 = Instant::now();
    let mut iters = 0u64;
    while t0.elapsed() < Duration::from_secs(secs) {
        match what {
            "utils" => utils_test(&mut rng),
            "qvector" => qvector_test(&mut rng),
            "bitvector" => bitvector_test(&mut rng),
            "qwt" => { qwt_sigma(&mut rng); qwt_a(&mut rng); qwt_b(&mut rng); qwt_c(&mut rng); qwt_d(&mut rng); qwt_e(&mut rng); }
            "wt" => { wt_a(&mut rng); wt_b(&mut rng); wt_c(&mut rng); hwt_a(&mut rng); hwt_b(&mut rng); }
            "hqwt" => { hq_a(&mut rng); hq_b(&mut rng); }
            "rsq" => { rsq_a(&mut rng); rsq_b(&mut rng); }
            "rsbin" => { rswide_t(&mut rng); rsnarrow_t(&mut rng); }
            "darray" => darray_test(&mut rng),
            _ => { utils_test(&mut rng); qvector_test(&mut rng); bitvector_test(&mut rng); qwt_a(&mut rng); wt_a(&mut rng); rsq_a(&mut rng); rswide_t(&mut rng); }
        }
        iters += 1;
    }
    println!("{{\"found\":false,\"iterations\":{},\"seconds\":{}}}", iters, secs);
}
