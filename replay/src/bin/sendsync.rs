//! C18 (rustc-level obligation): every public structure of the crate is Send + Sync.  This program only has to
//! type-check against /repo's working tree; a structure that loses Send or Sync makes it fail with E0277.
use qwt::*;
fn assert_send_sync<T: Send + Sync>() {}
fn main() {
    assert_send_sync::<BitVector>();
    assert_send_sync::<BitVectorMut>();
    assert_send_sync::<QVector>();
    assert_send_sync::<QVectorBuilder>();
    assert_send_sync::<RSQVector256>();
    assert_send_sync::<RSQVector512>();
    assert_send_sync::<RSNarrow>();
    assert_send_sync::<RSWide>();
    assert_send_sync::<DArray<false>>();
    assert_send_sync::<DArray<true>>();
    assert_send_sync::<QWT256<u8>>();
    assert_send_sync::<QWT512<u64>>();
    assert_send_sync::<QWT256Pfs<u32>>();
    assert_send_sync::<QWT512Pfs<u128>>();
    assert_send_sync::<HQWT256<u8>>();
    assert_send_sync::<HQWT512<u16>>();
    assert_send_sync::<HQWT256Pfs<usize>>();
    assert_send_sync::<HQWT512Pfs<u64>>();
    assert_send_sync::<WT<u64>>();
    assert_send_sync::<HWT<u8>>();
}
