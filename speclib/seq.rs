// ---------------------------------------------------------------------------
// speclib/seq.rs — pure specification: filtering, counting, stable partitions
// (wavelet-matrix theory).  Generic in the element type; no model of any code.
// Every predicate closure comes from a *named constructor* so that two uses are
// the same term.
// ---------------------------------------------------------------------------

pub open spec fn vx_digeq<A>(dig: spec_fn(A) -> int, d: int) -> spec_fn(A) -> bool { |x: A| dig(x) == d }
pub open spec fn vx_eqv<B>(b: B) -> spec_fn(B) -> bool { |y: B| y == b }
pub open spec fn vx_compeq<A, B>(f: spec_fn(A) -> B, b: B) -> spec_fn(A) -> bool { |x: A| f(x) == b }

/// bucket d of s under the digit function dig
pub open spec fn vx_filt<A>(s: Seq<A>, dig: spec_fn(A) -> int, d: int) -> Seq<A> {
    s.filter(vx_digeq(dig, d))
}

/// concatenation of buckets 0..k  (vx_pref(s,dig,b) = stable b-way partition)
pub open spec fn vx_pref<A>(s: Seq<A>, dig: spec_fn(A) -> int, k: int) -> Seq<A>
    decreases k
{
    if k <= 0 { Seq::empty() } else { vx_pref(s, dig, k - 1) + vx_filt(s, dig, k - 1) }
}

/// number of elements with digit d among the first p
pub open spec fn vx_rankd<A>(s: Seq<A>, dig: spec_fn(A) -> int, d: int, p: int) -> int {
    vx_filt(s.take(p), dig, d).len() as int
}

/// number of elements with digit < d
pub open spec fn vx_osm<A>(s: Seq<A>, dig: spec_fn(A) -> int, d: int) -> int {
    vx_pref(s, dig, d).len() as int
}

/// occurrences of value c in s
pub open spec fn vx_cnt<B>(s: Seq<B>, c: B) -> int { s.filter(vx_eqv(c)).len() as int }

/// rank: occurrences of c in s[0..i)
pub open spec fn vx_rank<B>(s: Seq<B>, c: B, i: int) -> int { vx_cnt(s.take(i), c) }

/// p is the position of the (k+1)-th occurrence of c in s
pub open spec fn vx_is_select<B>(s: Seq<B>, c: B, k: int, p: int) -> bool {
    0 <= p < s.len() && s[p] == c && vx_rank(s, c, p) == k
}

pub proof fn vx_lemma_filter_push<A>(s: Seq<A>, pred: spec_fn(A) -> bool, a: A)
    ensures s.push(a).filter(pred) == if pred(a) { s.filter(pred).push(a) } else { s.filter(pred) }
{
    assert(s.push(a) == s + seq![a]);
    Seq::filter_distributes_over_add(s, seq![a], pred);
    reveal_with_fuel(Seq::filter, 2);
    assert(seq![a].drop_last() == Seq::<A>::empty());
    assert(seq![a].filter(pred) == if pred(a) { seq![a] } else { Seq::<A>::empty() });
    if pred(a) {
        assert(s.filter(pred) + seq![a] == s.filter(pred).push(a));
    } else {
        assert(s.filter(pred) + Seq::<A>::empty() == s.filter(pred));
    }
}

pub proof fn vx_lemma_filter_len_le<A>(s: Seq<A>, pred: spec_fn(A) -> bool)
    ensures s.filter(pred).len() <= s.len()
    decreases s.len()
{
    reveal(Seq::filter);
    if s.len() > 0 { vx_lemma_filter_len_le(s.drop_last(), pred); }
}

pub proof fn vx_lemma_filter_ext<A>(s: Seq<A>, p: spec_fn(A) -> bool, q: spec_fn(A) -> bool)
    requires forall|k: int| 0 <= k < s.len() ==> p(#[trigger] s[k]) == q(s[k])
    ensures s.filter(p) == s.filter(q)
    decreases s.len()
{
    reveal(Seq::filter);
    if s.len() > 0 {
        vx_lemma_filter_ext(s.drop_last(), p, q);
        assert(p(s[s.len() - 1]) == q(s[s.len() - 1]));
    }
}

pub proof fn vx_lemma_filter_all<A>(s: Seq<A>, p: spec_fn(A) -> bool)
    requires forall|k: int| 0 <= k < s.len() ==> p(#[trigger] s[k])
    ensures s.filter(p) == s
    decreases s.len()
{
    reveal(Seq::filter);
    if s.len() > 0 {
        vx_lemma_filter_all(s.drop_last(), p);
        assert(s.drop_last().push(s.last()) == s);
    }
}

pub proof fn vx_lemma_filter_none<A>(s: Seq<A>, p: spec_fn(A) -> bool)
    requires forall|k: int| 0 <= k < s.len() ==> !p(#[trigger] s[k])
    ensures s.filter(p).len() == 0
    decreases s.len()
{
    reveal(Seq::filter);
    if s.len() > 0 { vx_lemma_filter_none(s.drop_last(), p); }
}

pub proof fn vx_lemma_filter_fuse<A>(s: Seq<A>, p: spec_fn(A) -> bool, q: spec_fn(A) -> bool, r: spec_fn(A) -> bool)
    requires forall|x: A| #[trigger] r(x) == (p(x) && q(x))
    ensures s.filter(p).filter(q) == s.filter(r)
    decreases s.len()
{
    reveal(Seq::filter);
    if s.len() == 0 {
    } else {
        vx_lemma_filter_fuse(s.drop_last(), p, q, r);
        let a = s.last();
        let f = s.drop_last().filter(p);
        if p(a) {
            assert(s.filter(p) == f.push(a));
            assert(f.push(a).drop_last() == f);
        }
    }
}

pub proof fn vx_lemma_map_filter_len<A, B>(s: Seq<A>, f: spec_fn(A) -> B, b: B)
    ensures s.map_values(f).filter(vx_eqv(b)).len() == s.filter(vx_compeq(f, b)).len()
    decreases s.len()
{
    reveal(Seq::filter);
    if s.len() > 0 {
        vx_lemma_map_filter_len(s.drop_last(), f, b);
        assert(s.map_values(f).drop_last() == s.drop_last().map_values(f));
    }
}

/// elements of a filtered sequence satisfy the predicate and come from s
pub proof fn vx_lemma_filter_elems<A>(s: Seq<A>, p: spec_fn(A) -> bool)
    ensures forall|k: int| 0 <= k < s.filter(p).len() ==> p(#[trigger] s.filter(p)[k])
    decreases s.len()
{
    reveal(Seq::filter);
    if s.len() > 0 {
        vx_lemma_filter_elems(s.drop_last(), p);
    }
}

pub proof fn vx_lemma_filt_split<A>(s: Seq<A>, dig: spec_fn(A) -> int, d: int, p: int)
    requires 0 <= p <= s.len()
    ensures vx_filt(s, dig, d) == vx_filt(s.take(p), dig, d) + vx_filt(s.skip(p), dig, d)
{
    assert(s == s.take(p) + s.skip(p));
    Seq::filter_distributes_over_add(s.take(p), s.skip(p), vx_digeq(dig, d));
}

pub proof fn vx_lemma_filter_split<A>(s: Seq<A>, pr: spec_fn(A) -> bool, p: int)
    requires 0 <= p <= s.len()
    ensures s.filter(pr) == s.take(p).filter(pr) + s.skip(p).filter(pr)
{
    assert(s == s.take(p) + s.skip(p));
    Seq::filter_distributes_over_add(s.take(p), s.skip(p), pr);
}

pub proof fn vx_lemma_filter_first<A>(s: Seq<A>, pr: spec_fn(A) -> bool)
    requires s.len() > 0, pr(s[0])
    ensures s.filter(pr).len() > 0, s.filter(pr)[0] == s[0]
{
    assert(s == seq![s[0]] + s.skip(1));
    Seq::filter_distributes_over_add(seq![s[0]], s.skip(1), pr);
    reveal_with_fuel(Seq::filter, 2);
    assert(seq![s[0]].drop_last() == Seq::<A>::empty());
    assert(seq![s[0]].filter(pr) == seq![s[0]]);
}

/// rank is monotone and grows by at most one per step
pub proof fn vx_lemma_rank_step<B>(s: Seq<B>, c: B, i: int)
    requires 0 <= i < s.len()
    ensures vx_rank(s, c, i + 1) == vx_rank(s, c, i) + (if s[i] == c { 1int } else { 0int })
{
    assert(s.take(i + 1) == s.take(i).push(s[i]));
    vx_lemma_filter_push(s.take(i), vx_eqv(c), s[i]);
}

pub proof fn vx_lemma_rank_mono<B>(s: Seq<B>, c: B, i: int, j: int)
    requires 0 <= i <= j <= s.len()
    ensures vx_rank(s, c, i) <= vx_rank(s, c, j), vx_rank(s, c, j) - vx_rank(s, c, i) <= j - i
    decreases j - i
{
    if i < j {
        vx_lemma_rank_mono(s, c, i, j - 1);
        vx_lemma_rank_step(s, c, j - 1);
    }
}

pub proof fn vx_lemma_rank_bounds<B>(s: Seq<B>, c: B, i: int)
    requires 0 <= i <= s.len()
    ensures 0 <= vx_rank(s, c, i) <= i, vx_rank(s, c, i) <= vx_cnt(s, c)
{
    vx_lemma_rank_mono(s, c, 0, i);
    assert(s.take(0) =~= Seq::<B>::empty());
    reveal(Seq::filter);
    vx_lemma_rank_mono(s, c, i, s.len() as int);
    assert(s.take(s.len() as int) == s);
}

/// the (k+1)-th occurrence is unique
pub proof fn vx_lemma_select_unique<B>(s: Seq<B>, c: B, k: int, p: int, q: int)
    requires vx_is_select(s, c, k, p), vx_is_select(s, c, k, q)
    ensures p == q
{
    if p < q {
        vx_lemma_rank_step(s, c, p);
        vx_lemma_rank_mono(s, c, p + 1, q);
    } else if q < p {
        vx_lemma_rank_step(s, c, q);
        vx_lemma_rank_mono(s, c, q + 1, p);
    }
}

/// an occurrence with index k exists iff k < cnt
pub proof fn vx_lemma_select_exists<B>(s: Seq<B>, c: B, k: int)
    requires 0 <= k < vx_cnt(s, c)
    ensures exists|p: int| vx_is_select(s, c, k, p)
    decreases s.len()
{
    reveal(Seq::filter);
    if s.len() == 0 {
    } else {
        let s0 = s.drop_last();
        let n0 = s0.len() as int;
        assert(s == s0.push(s.last()));
        vx_lemma_filter_push(s0, vx_eqv(c), s.last());
        if k < vx_cnt(s0, c) {
            vx_lemma_select_exists(s0, c, k);
            let p = choose|p: int| vx_is_select(s0, c, k, p);
            assert(s.take(p) == s0.take(p));
            assert(vx_is_select(s, c, k, p));
        } else {
            assert(s.last() == c);
            assert(s.take(n0) == s0);
            assert(s0.take(n0) == s0);
            assert(vx_is_select(s, c, k, n0));
        }
    }
}

pub proof fn vx_lemma_select_none<B>(s: Seq<B>, c: B, k: int, p: int)
    requires k >= vx_cnt(s, c) || k < 0
    ensures !vx_is_select(s, c, k, p)
{
    if 0 <= p < s.len() && s[p] == c {
        vx_lemma_rank_bounds(s, c, p);
        vx_lemma_rank_step(s, c, p);
        vx_lemma_rank_bounds(s, c, p + 1);
    }
}

pub proof fn vx_lemma_pref_step<A>(s: Seq<A>, dig: spec_fn(A) -> int, k: int)
    requires k >= 0
    ensures vx_pref(s, dig, k + 1) == vx_pref(s, dig, k) + vx_filt(s, dig, k),
            vx_osm(s, dig, k + 1) == vx_osm(s, dig, k) + vx_filt(s, dig, k).len()
{
    reveal_with_fuel(vx_pref, 2);
}

/// a b-way partition is as long as the input when every digit is in 0..b
pub proof fn vx_lemma_pref_len<A>(s: Seq<A>, dig: spec_fn(A) -> int, b: int)
    requires b >= 0, forall|k: int| 0 <= k < s.len() ==> 0 <= dig(#[trigger] s[k]) < b
    ensures vx_pref(s, dig, b).len() == s.len()
    decreases s.len()
{
    if s.len() == 0 {
        vx_lemma_pref_len_empty(s, dig, b);
    } else {
        let a = s.last();
        let s0 = s.drop_last();
        assert(s == s0.push(a));
        assert forall|k: int| 0 <= k < s0.len() implies 0 <= dig(#[trigger] s0[k]) < b by { assert(s0[k] == s[k]); }
        vx_lemma_pref_len(s0, dig, b);
        assert(0 <= dig(s[s.len() - 1]) < b);
        vx_lemma_pref_len_push(s0, dig, b, a);
    }
}

pub proof fn vx_lemma_pref_len_empty<A>(s: Seq<A>, dig: spec_fn(A) -> int, b: int)
    requires s.len() == 0, b >= 0
    ensures vx_pref(s, dig, b).len() == 0
    decreases b
{
    reveal(Seq::filter);
    if b > 0 {
        vx_lemma_pref_len_empty(s, dig, b - 1);
        vx_lemma_pref_step(s, dig, b - 1);
    }
}

pub proof fn vx_lemma_pref_len_push<A>(s: Seq<A>, dig: spec_fn(A) -> int, b: int, a: A)
    requires b >= 0
    ensures vx_pref(s.push(a), dig, b).len() == vx_pref(s, dig, b).len() + (if 0 <= dig(a) < b { 1int } else { 0int })
    decreases b
{
    if b > 0 {
        vx_lemma_pref_len_push(s, dig, b - 1, a);
        vx_lemma_pref_step(s, dig, b - 1);
        vx_lemma_pref_step(s.push(a), dig, b - 1);
        vx_lemma_filter_push(s, vx_digeq(dig, b - 1), a);
    }
}

pub proof fn vx_lemma_osm_mono<A>(s: Seq<A>, dig: spec_fn(A) -> int, d: int, b: int)
    requires 0 <= d <= b
    ensures vx_osm(s, dig, d) <= vx_osm(s, dig, b),
            d < b ==> vx_osm(s, dig, d) + vx_filt(s, dig, d).len() <= vx_osm(s, dig, b)
    decreases b - d
{
    if d < b {
        vx_lemma_pref_step(s, dig, d);
        vx_lemma_osm_mono(s, dig, d + 1, b);
    }
}

/// bucket d occupies [osm(d), osm(d)+|bucket d|) of the partition
pub proof fn vx_lemma_pref_bucket_range<A>(s: Seq<A>, dig: spec_fn(A) -> int, b: int, d: int)
    requires 0 <= d < b
    ensures vx_osm(s, dig, d) + vx_filt(s, dig, d).len() <= vx_pref(s, dig, b).len(),
            vx_pref(s, dig, b).subrange(vx_osm(s, dig, d), vx_osm(s, dig, d) + vx_filt(s, dig, d).len()) == vx_filt(s, dig, d)
    decreases b
{
    if b == d + 1 {
        vx_lemma_pref_step(s, dig, d);
        assert(vx_pref(s, dig, b).subrange(vx_osm(s, dig, d), vx_osm(s, dig, d) + vx_filt(s, dig, d).len()) =~= vx_filt(s, dig, d));
    } else {
        vx_lemma_pref_bucket_range(s, dig, b - 1, d);
        let lo = vx_osm(s, dig, d);
        let hi = lo + vx_filt(s, dig, d).len();
        vx_lemma_pref_step(s, dig, b - 1);
        assert(vx_pref(s, dig, b).subrange(lo, hi) =~= vx_pref(s, dig, b - 1).subrange(lo, hi));
    }
}

/// Range map: the d-bucket elements of s[p..q) sit, in order, at
/// [osm(d)+rank_d(p), osm(d)+rank_d(q)) of the partitioned sequence.
pub proof fn vx_lemma_range_map<A>(s: Seq<A>, dig: spec_fn(A) -> int, b: int, d: int, p: int, q: int)
    requires 0 <= d < b, 0 <= p <= q <= s.len()
    ensures ({
        let lo = vx_osm(s, dig, d) + vx_rankd(s, dig, d, p);
        let hi = vx_osm(s, dig, d) + vx_rankd(s, dig, d, q);
        lo <= hi <= vx_pref(s, dig, b).len()
        && vx_pref(s, dig, b).subrange(lo, hi) == vx_filt(s.subrange(p, q), dig, d)
    })
{
    vx_lemma_filt_split(s, dig, d, q);
    vx_lemma_filt_split(s.take(q), dig, d, p);
    assert(s.take(q).take(p) == s.take(p));
    assert(s.take(q).skip(p) == s.subrange(p, q));
    vx_lemma_pref_bucket_range(s, dig, b, d);
    let f = vx_filt(s, dig, d);
    let a = vx_filt(s.take(p), dig, d);
    let m = vx_filt(s.subrange(p, q), dig, d);
    let z = vx_filt(s.skip(q), dig, d);
    assert(f == (a + m) + z);
    let o = vx_osm(s, dig, d);
    assert(vx_pref(s, dig, b).subrange(o, o + f.len()) == f);
    assert(f.subrange(a.len() as int, (a.len() + m.len()) as int) =~= m);
    assert(vx_pref(s, dig, b).subrange(o + a.len(), o + a.len() + m.len()) =~= f.subrange(a.len() as int, (a.len() + m.len()) as int));
}

/// Element map: s[p] lands at osm(d) + rank_d(p) of the partition.
pub proof fn vx_lemma_elem_map<A>(s: Seq<A>, dig: spec_fn(A) -> int, b: int, p: int)
    requires 0 <= p < s.len(), 0 <= dig(s[p]) < b
    ensures ({
        let d = dig(s[p]);
        let q = vx_osm(s, dig, d) + vx_rankd(s, dig, d, p);
        0 <= q < vx_pref(s, dig, b).len() && vx_pref(s, dig, b)[q] == s[p]
    })
{
    let d = dig(s[p]);
    vx_lemma_range_map(s, dig, b, d, p, p + 1);
    let lo = vx_osm(s, dig, d) + vx_rankd(s, dig, d, p);
    let one = s.subrange(p, p + 1);
    assert(one =~= seq![s[p]]);
    reveal_with_fuel(Seq::filter, 2);
    assert(seq![s[p]].drop_last() == Seq::<A>::empty());
    assert(vx_filt(one, dig, d) =~= seq![s[p]]);
    assert(vx_pref(s, dig, b).subrange(lo, lo + 1)[0] == s[p]);
}

// ---- counting by an arbitrary predicate (vx_rank / vx_rankd are instances) ----
pub open spec fn vx_pcount<A>(s: Seq<A>, pr: spec_fn(A) -> bool, i: int) -> int { s.take(i).filter(pr).len() as int }

pub proof fn vx_lemma_pcount_step<A>(s: Seq<A>, pr: spec_fn(A) -> bool, i: int)
    requires 0 <= i < s.len()
    ensures vx_pcount(s, pr, i + 1) == vx_pcount(s, pr, i) + (if pr(s[i]) { 1int } else { 0int })
{
    assert(s.take(i + 1) == s.take(i).push(s[i]));
    vx_lemma_filter_push(s.take(i), pr, s[i]);
}

pub proof fn vx_lemma_pcount_mono<A>(s: Seq<A>, pr: spec_fn(A) -> bool, i: int, j: int)
    requires 0 <= i <= j <= s.len()
    ensures vx_pcount(s, pr, i) <= vx_pcount(s, pr, j), vx_pcount(s, pr, j) - vx_pcount(s, pr, i) <= j - i
    decreases j - i
{
    if i < j {
        vx_lemma_pcount_mono(s, pr, i, j - 1);
        vx_lemma_pcount_step(s, pr, j - 1);
    }
}

/// number of pr-elements inside the block [b,e)
pub proof fn vx_lemma_block_count<A>(lv: Seq<A>, pr: spec_fn(A) -> bool, b: int, e: int)
    requires 0 <= b <= e <= lv.len()
    ensures lv.subrange(b, e).filter(pr).len() == vx_pcount(lv, pr, e) - vx_pcount(lv, pr, b)
{
    vx_lemma_filter_split(lv.take(e), pr, b);
    assert(lv.take(e).take(b) == lv.take(b));
    assert(lv.take(e).skip(b) == lv.subrange(b, e));
}

/// One upward step of a wavelet-matrix select.  lv is a level, [b,e) the block of the elements
/// that share the symbol's prefix, d the symbol's digit at this level, q the position of the
/// (rank_d(b) + rp + 1)-th element of lv with digit d.  f = the d-bucket of the block (the block of
/// the next level).
pub proof fn vx_lemma_select_up<A>(lv: Seq<A>, dig: spec_fn(A) -> int, d: int, b: int, e: int, c: A, rp: int, q: int)
    requires 0 <= b <= e <= lv.len(), dig(c) == d, 0 <= rp,
             0 <= q < lv.len(), dig(lv[q]) == d,
             vx_rankd(lv, dig, d, q) == vx_rankd(lv, dig, d, b) + rp,
    ensures ({
        let g = lv.subrange(b, e);
        let f = vx_filt(g, dig, d);
        b <= q
        && (rp < f.len() ==> q < e && g[q - b] == f[rp] && vx_rank(g, c, q - b) == vx_rank(f, c, rp))
        && (rp >= f.len() ==> q - b >= g.len())
    })
{
    let pr = vx_digeq(dig, d);
    let g = lv.subrange(b, e);
    let f = vx_filt(g, dig, d);
    assert(vx_rankd(lv, dig, d, q) == vx_pcount(lv, pr, q));
    assert(vx_rankd(lv, dig, d, b) == vx_pcount(lv, pr, b));
    vx_lemma_pcount_step(lv, pr, q);
    if q < b {
        vx_lemma_pcount_mono(lv, pr, q + 1, b);
        assert(false);
    }
    vx_lemma_block_count(lv, pr, b, e);
    if rp < f.len() {
        if q >= e { vx_lemma_pcount_mono(lv, pr, e, q); assert(false); }
        let r = q - b;
        assert(g[r] == lv[q]);
        vx_lemma_block_count(lv, pr, b, q);
        assert(g.take(r) == lv.subrange(b, q));
        vx_lemma_filter_split(g, pr, r);
        vx_lemma_filter_first(g.skip(r), pr);
        let h = g.take(r).filter(pr);
        assert(h.len() == rp);
        assert(f == h + g.skip(r).filter(pr));
        assert(f[rp] == g[r]);
        // ranks
        assert(f.take(rp) =~= h);
        assert forall|x: A| #[trigger] vx_eqv(c)(x) == (pr(x) && vx_eqv(c)(x)) by {}
        vx_lemma_filter_fuse(g.take(r), pr, vx_eqv(c), vx_eqv(c));
    } else {
        if q < e { vx_lemma_pcount_mono(lv, pr, q + 1, e); assert(false); }
    }
}

/// rank of false + rank of true = position
pub proof fn vx_lemma_rank_bool(s: Seq<bool>, i: int)
    requires 0 <= i <= s.len()
    ensures vx_rank(s, true, i) + vx_rank(s, false, i) == i, vx_rank(s, true, i) <= i
    decreases i
{
    if i == 0 {
        assert(s.take(0) =~= Seq::<bool>::empty());
        reveal(Seq::filter);
    } else {
        vx_lemma_rank_bool(s, i - 1);
        vx_lemma_rank_step(s, true, i - 1);
        vx_lemma_rank_step(s, false, i - 1);
    }
}

/// occurrences of the symbols below d plus occurrences of d never exceed the length
pub open spec fn vx_below(s: Seq<u8>, d: int) -> int
    decreases d
{
    if d <= 0 { 0 } else { vx_below(s, d - 1) + vx_cnt(s, (d - 1) as u8) }
}

pub proof fn vx_lemma_below_push(s: Seq<u8>, x: u8, d: int)
    requires 0 <= d <= 256
    ensures vx_below(s.push(x), d) == vx_below(s, d) + (if (x as int) < d { 1int } else { 0int })
    decreases d
{
    if d > 0 {
        vx_lemma_below_push(s, x, d - 1);
        vx_lemma_filter_push(s, vx_eqv((d - 1) as u8), x);
    }
}

pub proof fn vx_lemma_below_le(s: Seq<u8>, d: int)
    requires 0 <= d <= 255
    ensures vx_below(s, d) + vx_cnt(s, d as u8) <= s.len(), 0 <= vx_below(s, d)
    decreases s.len()
{
    if s.len() == 0 {
        vx_lemma_below_empty(s, d + 1);
        assert(vx_below(s, d + 1) == vx_below(s, d) + vx_cnt(s, d as u8));
        vx_lemma_below_empty(s, d);
    } else {
        let s0 = s.drop_last();
        let x = s.last();
        assert(s == s0.push(x));
        vx_lemma_below_le(s0, d);
        vx_lemma_below_push(s0, x, d);
        vx_lemma_filter_push(s0, vx_eqv(d as u8), x);
    }
}

pub proof fn vx_lemma_below_empty(s: Seq<u8>, d: int)
    requires s.len() == 0, 0 <= d
    ensures vx_below(s, d) == 0
    decreases d
{
    reveal(Seq::filter);
    if d > 0 { vx_lemma_below_empty(s, d - 1); }
}

/// positions of occurrences are increasing in the occurrence index
pub proof fn vx_lemma_select_mono<B>(s: Seq<B>, c: B, k1: int, p1: int, k2: int, p2: int)
    requires vx_is_select(s, c, k1, p1), vx_is_select(s, c, k2, p2), k1 <= k2
    ensures p1 <= p2, k1 < k2 ==> p1 < p2
{
    if p1 > p2 {
        vx_lemma_rank_step(s, c, p2);
        vx_lemma_rank_mono(s, c, p2 + 1, p1);
    }
    if p1 == p2 && k1 < k2 { }
}

/// rank right after the (k+1)-th occurrence is k+1; before it at most k
pub proof fn vx_lemma_select_rank<B>(s: Seq<B>, c: B, k: int, p: int, x: int)
    requires vx_is_select(s, c, k, p), 0 <= x <= s.len()
    ensures x <= p ==> vx_rank(s, c, x) <= k, x > p ==> vx_rank(s, c, x) >= k + 1
{
    if x <= p { vx_lemma_rank_mono(s, c, x, p); }
    else { vx_lemma_rank_step(s, c, p); vx_lemma_rank_mono(s, c, p + 1, x); }
}
