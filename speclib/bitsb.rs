// ---------------------------------------------------------------------------
// speclib/bitsb.rs — the same shift/mask facts as broadcast lemmas: any `x >> k` / `x & (2^k - 1)` with a literal k that
// appears in the code is known to be `x / 2^k` / `x % 2^k` without a lemma call, so that the proofs do not depend on which
// of the two equivalent spellings the repository uses (robustness against harmless rewrites).
// ---------------------------------------------------------------------------
pub mod vxbits {
    use vstd::prelude::*;
    pub broadcast proof fn vx_b_shr1(i: usize) ensures #[trigger] (i >> 1) == i / 2 { assert(i >> 1 == i / 2) by (bit_vector); }
    pub broadcast proof fn vx_b_and1(i: usize) ensures #[trigger] (i & 1) == i % 2 { assert(i & 1 == i % 2) by (bit_vector); }
    pub broadcast proof fn vx_b_shr2(i: usize) ensures #[trigger] (i >> 2) == i / 4 { assert(i >> 2 == i / 4) by (bit_vector); }
    pub broadcast proof fn vx_b_and2(i: usize) ensures #[trigger] (i & 3) == i % 4 { assert(i & 3 == i % 4) by (bit_vector); }
    pub broadcast proof fn vx_b_shr3(i: usize) ensures #[trigger] (i >> 3) == i / 8 { assert(i >> 3 == i / 8) by (bit_vector); }
    pub broadcast proof fn vx_b_and3(i: usize) ensures #[trigger] (i & 7) == i % 8 { assert(i & 7 == i % 8) by (bit_vector); }
    pub broadcast proof fn vx_b_shr4(i: usize) ensures #[trigger] (i >> 4) == i / 16 { assert(i >> 4 == i / 16) by (bit_vector); }
    pub broadcast proof fn vx_b_and4(i: usize) ensures #[trigger] (i & 15) == i % 16 { assert(i & 15 == i % 16) by (bit_vector); }
    pub broadcast proof fn vx_b_shr5(i: usize) ensures #[trigger] (i >> 5) == i / 32 { assert(i >> 5 == i / 32) by (bit_vector); }
    pub broadcast proof fn vx_b_and5(i: usize) ensures #[trigger] (i & 31) == i % 32 { assert(i & 31 == i % 32) by (bit_vector); }
    pub broadcast proof fn vx_b_shr6(i: usize) ensures #[trigger] (i >> 6) == i / 64 { assert(i >> 6 == i / 64) by (bit_vector); }
    pub broadcast proof fn vx_b_and6(i: usize) ensures #[trigger] (i & 63) == i % 64 { assert(i & 63 == i % 64) by (bit_vector); }
    pub broadcast proof fn vx_b_shr7(i: usize) ensures #[trigger] (i >> 7) == i / 128 { assert(i >> 7 == i / 128) by (bit_vector); }
    pub broadcast proof fn vx_b_and7(i: usize) ensures #[trigger] (i & 127) == i % 128 { assert(i & 127 == i % 128) by (bit_vector); }
    pub broadcast proof fn vx_b_shr8(i: usize) ensures #[trigger] (i >> 8) == i / 256 { assert(i >> 8 == i / 256) by (bit_vector); }
    pub broadcast proof fn vx_b_and8(i: usize) ensures #[trigger] (i & 255) == i % 256 { assert(i & 255 == i % 256) by (bit_vector); }
    pub broadcast proof fn vx_b_shr9(i: usize) ensures #[trigger] (i >> 9) == i / 512 { assert(i >> 9 == i / 512) by (bit_vector); }
    pub broadcast proof fn vx_b_and9(i: usize) ensures #[trigger] (i & 511) == i % 512 { assert(i & 511 == i % 512) by (bit_vector); }
    pub broadcast proof fn vx_b_shr10(i: usize) ensures #[trigger] (i >> 10) == i / 1024 { assert(i >> 10 == i / 1024) by (bit_vector); }
    pub broadcast proof fn vx_b_and10(i: usize) ensures #[trigger] (i & 1023) == i % 1024 { assert(i & 1023 == i % 1024) by (bit_vector); }
    pub broadcast proof fn vx_b_shr11(i: usize) ensures #[trigger] (i >> 11) == i / 2048 { assert(i >> 11 == i / 2048) by (bit_vector); }
    pub broadcast proof fn vx_b_and11(i: usize) ensures #[trigger] (i & 2047) == i % 2048 { assert(i & 2047 == i % 2048) by (bit_vector); }
    pub broadcast proof fn vx_b_shr12(i: usize) ensures #[trigger] (i >> 12) == i / 4096 { assert(i >> 12 == i / 4096) by (bit_vector); }
    pub broadcast proof fn vx_b_and12(i: usize) ensures #[trigger] (i & 4095) == i % 4096 { assert(i & 4095 == i % 4096) by (bit_vector); }
    pub broadcast proof fn vx_b_shr13(i: usize) ensures #[trigger] (i >> 13) == i / 8192 { assert(i >> 13 == i / 8192) by (bit_vector); }
    pub broadcast proof fn vx_b_and13(i: usize) ensures #[trigger] (i & 8191) == i % 8192 { assert(i & 8191 == i % 8192) by (bit_vector); }
    pub broadcast group vx_bits { vx_b_shr1, vx_b_and1, vx_b_shr2, vx_b_and2, vx_b_shr3, vx_b_and3, vx_b_shr4, vx_b_and4, vx_b_shr5, vx_b_and5, vx_b_shr6, vx_b_and6, vx_b_shr7, vx_b_and7, vx_b_shr8, vx_b_and8, vx_b_shr9, vx_b_and9, vx_b_shr10, vx_b_and10, vx_b_shr11, vx_b_and11, vx_b_shr12, vx_b_and12, vx_b_shr13, vx_b_and13 }
}
broadcast use vxbits::vx_bits;
