// ---------------------------------------------------------------------------
// speclib/prelude.rs — trusted specifications of the std functions the verified
// text calls and that vstd does not specify.
// ---------------------------------------------------------------------------

/// Rule R-gu: slice-level `.get_unchecked(i)` in the repository text is renamed
/// `.vx_gu(i)`: an alias whose body IS `get_unchecked` and whose contract makes
/// the in-bounds fact a proof obligation at every call site.
pub trait VxGu<T> {
    spec fn vx_view(&self) -> Seq<T>;
    unsafe fn vx_gu(&self, i: usize) -> (r: &T)
        requires i < self.vx_view().len()
        ensures *r == self.vx_view()[i as int];
}
impl<T> VxGu<T> for [T] {
    open spec fn vx_view(&self) -> Seq<T> { self@ }
    #[verifier::external_body]
    unsafe fn vx_gu(&self, i: usize) -> (r: &T) { self.get_unchecked(i) }
}

pub assume_specification<T, A: core::alloc::Allocator>[Vec::<T, A>::into_boxed_slice](v: Vec<T, A>) -> (r: Box<[T], A>)
    ensures r@ == v@;

pub assume_specification<T, A: core::alloc::Allocator>[Vec::<T, A>::shrink_to_fit](v: &mut Vec<T, A>)
    ensures final(v)@ == old(v)@;
