// ---------------------------------------------------------------------------
// speclib/bits.rs — shift/mask facts (each proved by the bit-vector solver)
// ---------------------------------------------------------------------------
pub proof fn vx_lemma_shr1(p: usize) ensures p >> 1 == p / 2
{ assert(p >> 1 == p / 2) by (bit_vector); }
pub proof fn vx_lemma_sh3(i: usize) ensures i >> 3 == i / 8, i & 7 == i % 8
{ assert(i >> 3 == i / 8 && i & 7 == i % 8) by (bit_vector); }
pub proof fn vx_lemma_sh6(i: usize) ensures i >> 6 == i / 64, i & 63 == i % 64, i << 6 == i * 64 || i >= 0x400000000000000
{ assert(i >> 6 == i / 64 && i & 63 == i % 64) by (bit_vector);
  assert(i < 0x400000000000000 ==> i << 6 == mul(i, 64)) by (bit_vector); }
pub proof fn vx_lemma_sh7(i: usize) ensures i >> 7 == i / 128, i & 127 == i % 128
{ assert(i >> 7 == i / 128 && i & 127 == i % 128) by (bit_vector); }
pub proof fn vx_lemma_sh8(i: usize) ensures i >> 8 == i / 256, i & 255 == i % 256
{ assert(i >> 8 == i / 256 && i & 255 == i % 256) by (bit_vector); }
pub proof fn vx_lemma_sh9(i: usize) ensures i >> 9 == i / 512, i & 511 == i % 512
{ assert(i >> 9 == i / 512 && i & 511 == i % 512) by (bit_vector); }
pub proof fn vx_lemma_and3(x: u8) ensures x & 3 <= 3, x <= 3 ==> x & 3 == x
{ assert(x & 3 <= 3) by (bit_vector); assert(x <= 3 ==> x & 3 == x) by (bit_vector); }

/// values of the shifted constants used in the repository
pub proof fn vx_lemma_consts()
    ensures (1usize << 12) == 4096, (1usize << 13) == 8192, (1usize << 16) == 65536, (1usize << 43) == 0x80000000000,
{
    assert((1usize << 12) == 4096 && (1usize << 13) == 8192 && (1usize << 16) == 65536 && (1usize << 43) == 0x80000000000) by (bit_vector);
}
