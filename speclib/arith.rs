// ---------------------------------------------------------------------------
// speclib/arith.rs — division facts used by the block / superblock index computations
// ---------------------------------------------------------------------------
pub proof fn vx_lemma_div_facts(i: int, d: int)
    requires d > 0, i >= 0
    ensures (i / d) * d <= i < (i / d) * d + d,
            i % d == 0 ==> (i + d - 1) / d == i / d && (i / d) * d == i,
            i % d != 0 ==> (i + d - 1) / d == i / d + 1,
            (i + 1 + d - 1) / d == i / d + 1,
            i > 0 && i % d != 0 ==> (i - 1) / d == i / d,
            i / d >= 0,
{
    vstd::arithmetic::div_mod::lemma_fundamental_div_mod(i, d);
    vstd::arithmetic::div_mod::lemma_mod_bound(i, d);
    let q = i / d;
    let r = i % d;
    assert(i == d * q + r);
    assert(d * q == q * d) by (nonlinear_arith);
    assert((q + 1) * d == q * d + d) by (nonlinear_arith);
    if r == 0 {
        vstd::arithmetic::div_mod::lemma_fundamental_div_mod_converse(i + d - 1, d, q, d - 1);
    } else {
        vstd::arithmetic::div_mod::lemma_fundamental_div_mod_converse(i + d - 1, d, q + 1, r - 1);
        if i > 0 { vstd::arithmetic::div_mod::lemma_fundamental_div_mod_converse(i - 1, d, q, r - 1); }
    }
    vstd::arithmetic::div_mod::lemma_fundamental_div_mod_converse(i + d, d, q + 1, r);
    if q < 0 { assert(q * d <= -d) by (nonlinear_arith) requires q <= -1, d > 0; }
}
/// position arithmetic of block b' = (i / bs) % 8 inside superblock j = i / (8 bs)
pub proof fn vx_lemma_block_pos(i: int, bs: int)
    requires bs > 0, i >= 0
    ensures (i / (8 * bs)) * (8 * bs) + ((i / bs) % 8) * bs == (i / bs) * bs,
            0 <= (i / bs) % 8 < 8,
            i / (8 * bs) == (i / bs) / 8,
{
    let k = i / bs;
    vx_lemma_div_facts(i, bs);
    vstd::arithmetic::div_mod::lemma_fundamental_div_mod(k, 8);
    vstd::arithmetic::div_mod::lemma_mod_bound(k, 8);
    vstd::arithmetic::div_mod::lemma_div_denominator(i, bs, 8);
    assert(bs * 8 == 8 * bs) by (nonlinear_arith);
    let j = k / 8;
    let b = k % 8;
    assert(k == 8 * j + b);
    assert(j * (8 * bs) + b * bs == (8 * j + b) * bs) by (nonlinear_arith);
}
pub proof fn vx_lemma_mul_mono(a: int, b: int, c: int)
    requires a <= b, c >= 0
    ensures a * c <= b * c
{ assert(a * c <= b * c) by (nonlinear_arith) requires a <= b, c >= 0; }

pub proof fn vx_lemma_div_mono(a: int, b: int, d: int)
    requires 0 <= a <= b, d > 0
    ensures a / d <= b / d
{ vstd::arithmetic::div_mod::lemma_div_is_ordered(a, b, d); }

/// block starts are distinct: (8 j + b) bs = (8 j' + b') bs with b, b' in 0..8 forces j = j', b = b'
pub proof fn vx_lemma_pos_unique(j: int, b: int, j2: int, b2: int, bs: int)
    requires bs > 0, 0 <= b < 8, 0 <= b2 < 8, j * (8 * bs) + b * bs == j2 * (8 * bs) + b2 * bs
    ensures j == j2, b == b2
{
    assert(j * (8 * bs) + b * bs == (8 * j + b) * bs) by (nonlinear_arith);
    assert(j2 * (8 * bs) + b2 * bs == (8 * j2 + b2) * bs) by (nonlinear_arith);
    assert(8 * j + b == 8 * j2 + b2) by (nonlinear_arith) requires (8 * j + b) * bs == (8 * j2 + b2) * bs, bs > 0;
}

/// a multiple of bs is 0 mod bs
pub proof fn vx_lemma_mod_mul(k: int, bs: int)
    requires bs > 0
    ensures (k * bs) % bs == 0
{
    vstd::arithmetic::div_mod::lemma_mod_multiples_basic(k, bs);
}

pub proof fn vx_lemma_succ_mul(a: int, b: int)
    ensures (a + 1) * b == a * b + b
{ assert((a + 1) * b == a * b + b) by (nonlinear_arith); }

pub open spec fn vx_min(a: int, b: int) -> int { if a <= b { a } else { b } }
