// ---------------------------------------------------------------------------
// speclib/numtraits.rs — the slice of `num_traits` the verified text calls,
// for the element type $T$.
// `AsPrimitive::as_` is, by the definition in num_traits (`impl_as_primitive!`),
// `self as U`; that definition is restated here as the contract of a local
// trait with the same name, so that `x.as_()` in the repository text resolves
// (by ordinary type inference, as in the real crate, where the only bounds in
// scope are `T: AsPrimitive<usize>` and `usize: AsPrimitive<T>`) to a function
// whose specification is the `as` cast.  TRUSTED: that num_traits implements
// `as_` as `as` (re-checked bit-precisely by the Kani kernel k10_as_primitive).
// ---------------------------------------------------------------------------
pub trait AsPrimitive<U>: Sized {
    spec fn vx_as(self) -> U;
    fn as_(self) -> (r: U)
        ensures r == self.vx_as();
}
impl AsPrimitive<usize> for $T$ { open spec fn vx_as(self) -> usize { self as usize } fn as_(self) -> (r: usize) { self as usize } }
impl AsPrimitive<$T$> for usize { open spec fn vx_as(self) -> $T$ { self as $T$ } fn as_(self) -> (r: $T$) { self as $T$ } }

pub trait VxZero: Sized { spec fn vx_zero() -> Self; fn zero() -> (r: Self) ensures r == Self::vx_zero(); }
impl VxZero for $T$ { open spec fn vx_zero() -> $T$ { 0 } fn zero() -> (r: $T$) { 0 } }
