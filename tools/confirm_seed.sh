#!/bin/bash
# usage: confirm_seed.sh <worktree> <patch.diff> <demo.rs> <demo_name>
# confirms: patch applies; tests pass with patch; demo fails with patch; demo passes without patch
WT=$1; PATCH=$2; DEMO=$3; NAME=$4
cd $WT || exit 9
git checkout -q -- . ; git clean -fdq -e target
git apply --check $PATCH || { echo "PATCH DOES NOT APPLY"; exit 1; }
mkdir -p examples; cp $DEMO examples/$NAME.rs
cargo run --offline --example $NAME >/dev/null 2>&1; echo "clean: demo exit=$?"
git apply $PATCH
cargo test --offline 2>&1 | grep -E "^test result" | tr '\n' ' '; echo
cargo run --offline --example $NAME >/dev/null 2>&1; echo "patched: demo exit=$?"
cargo run --offline --release --example $NAME >/dev/null 2>&1; echo "patched(release): demo exit=$?"
git checkout -q -- . ; git clean -fdq -e target
