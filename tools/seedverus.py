#!/usr/bin/env python3
"""seedverus.py — regression over the seeded changes, Verus units only: for every seed whose recorded run had a Verus
violation, the touched units must still report a failure (used after changes to the merge machinery)."""
import json, os, re, shutil, subprocess, sys, tempfile, glob
V = os.path.dirname(os.path.dirname(os.path.abspath(__file__)))
UNITS = {"src/quadwt/mod.rs": ["qwt_u64", "qwt_u128"], "src/qvector/mod.rs": ["qvector"], "src/qvector/rs_qvector.rs": ["rsq"],
         "src/qvector/rs_qvector/rs_support_plain.rs": ["rsq"], "src/bitvector/mod.rs": ["bitvector"], "src/bitvector/rs_wide.rs": ["rswide"],
         "src/bitvector/rs_narrow.rs": ["rsnarrow"], "src/darray/mod.rs": ["darray"], "src/binwt/mod.rs": ["wt_u64", "wt_u128"],
         "src/utils/mod.rs": ["utils_u64", "utils_u128", "bitvector"], "src/quadwt/prefetch_support.rs": ["prefetch"], "src/lib.rs": ["qwt_u64"]}
only = sys.argv[1:]
for d in sorted(glob.glob(os.path.join(V, "seeded", "s*"))):
    sid = os.path.basename(d)
    if only and not any(sid.startswith(o) for o in only):
        continue
    meta = json.load(open(os.path.join(d, "meta.json")))
    had = any("verus" in v for t in meta.get("runs", {}).values() for r in t.values() for v in r.get("violations", []))
    patch = os.path.join(d, "patch.diff")
    files = re.findall(r"^\+\+\+ b/(\S+)", open(patch).read(), re.M)
    target = tempfile.mkdtemp(prefix="sv-", dir="/dev/shm")
    try:
        subprocess.run(["rsync", "-a", "--exclude", "target", "--exclude", ".git", "/repo/", target + "/"], check=True)
        subprocess.run(["git", "init", "-q"], cwd=target)
        if subprocess.run(["git", "apply", patch], cwd=target, capture_output=True).returncode:
            print(sid, "patch does not apply"); continue
        env = dict(os.environ, VERIF_REPO=target)
        verdicts = []
        for f in files:
            for u in UNITS.get(f, []):
                pr = subprocess.run(["python3", os.path.join(V, "tools", "vx.py"), u], capture_output=True, text=True, cwd=V, env=env)
                out = pr.stdout + pr.stderr
                fails = [l for l in out.split("\n") if l.startswith("FAILURE") and "get_bits :" not in l]
                inc = [l for l in out.split("\n") if l.startswith("INCONCLUSIVE")]
                verdicts.append("FAIL" if fails else ("inc" if inc else "ok"))
        now = "FAIL" in verdicts
        flag = "REGRESSION" if (had and not now) else ""
        print("%-48s recorded-verus=%s now=%s %s" % (sid, had, verdicts, flag), flush=True)
    finally:
        shutil.rmtree(target, ignore_errors=True)
