"""Syntactic obligations (engine `scan`): facts read off the source text of /repo's working tree.
They are used only where the property itself is a statement about the text (C09: where the
`prefetch` feature is consulted; C18: absence of interior mutability / of `&mut self` in query traits)."""
import os
import re

REPO = os.environ.get("VERIF_REPO", "/repo")


def _sources():
    out = []
    for root, dirs, files in os.walk(os.path.join(REPO, "src")):
        for f in sorted(files):
            if f.endswith(".rs"):
                p = os.path.join(root, f)
                rel = os.path.relpath(p, REPO)
                if rel.startswith("src/bin/") or rel.endswith("tests.rs") or "/tests" in rel or rel.startswith("src/perf_and_test_utils"):
                    continue
                out.append((rel, open(p).read()))
    return out


def _strip_comments(s):
    s = re.sub(r"/\*.*?\*/", "", s, flags=re.S)
    return re.sub(r"//[^\n]*", "", s)


def c09_cfg_sites():
    """the prefetch feature is consulted only inside utils::prefetch_read_NTA (2 blocks) and in the crate-level
    cfg_attr of lib.rs: with the prefetch intrinsic having no architectural effect, feature on/off is the same function"""
    sites = []
    for rel, src in _sources():
        for m in re.finditer(r'feature\s*=\s*"prefetch"', _strip_comments(src)):
            sites.append(rel)
    want = {"src/utils/mod.rs": 2, "src/lib.rs": 1}
    got = {}
    for s in sites:
        got[s] = got.get(s, 0) + 1
    ok = got == want
    # both utils sites must be inside prefetch_read_NTA
    if ok:
        src = dict(_sources())["src/utils/mod.rs"]
        a = src.index("pub fn prefetch_read_NTA")
        b = src.index("\n}\n", a)
        ok = len(re.findall(r'feature\s*=\s*"prefetch"', src[a:b])) == 2
    return {"id": "scan:c09_prefetch_cfg_sites", "engine": "scan", "kind": "proved", "ok": ok,
            "function": "cfg(feature = \"prefetch\") sites", "file": "src/", "props": ["C09"],
            "failures": [] if ok else [{"msg": "the `prefetch` feature is consulted outside utils::prefetch_read_NTA / lib.rs cfg_attr: %s" % got,
                                        "source": str(got), "text": str(got)}]}


_INTERIOR = re.compile(r"\b(Cell|RefCell|UnsafeCell|OnceCell|OnceLock|LazyLock|Mutex|RwLock|Atomic[A-Z]\w*|thread_local|static\s+mut)\b")


def c18_no_interior_mutability():
    hits = []
    for rel, src in _sources():
        for m in _INTERIOR.finditer(_strip_comments(src)):
            hits.append("%s: %s" % (rel, m.group(0)))
    ok = not hits
    return {"id": "scan:c18_no_interior_mutability", "engine": "scan", "kind": "proved", "ok": ok,
            "function": "struct definitions and statics of the library", "file": "src/", "props": ["C18"],
            "failures": [] if ok else [{"msg": "interior mutability / global mutable state in library sources: %s" % hits[:5],
                                        "source": hits[0], "text": "\n".join(hits)}]}


def c18_queries_take_shared_ref():
    """every method of the query traits takes &self (so a query cannot modify the structure without interior mutability)"""
    src = _strip_comments(dict(_sources())["src/lib.rs"])
    bad = []
    for tm in re.finditer(r"pub trait (Access\w+|Rank\w+|Select\w+|WTSupport)\b.*?\n}\n", src, flags=re.S):
        for fm in re.finditer(r"fn\s+(\w+)\s*\(([^)]*)\)", tm.group(0)):
            if not fm.group(2).strip().startswith("&self"):
                bad.append("%s::%s(%s)" % (tm.group(1), fm.group(1), fm.group(2)))
    ok = not bad
    return {"id": "scan:c18_query_traits_take_shared_ref", "engine": "scan", "kind": "proved", "ok": ok,
            "function": "query traits of src/lib.rs", "file": "src/lib.rs", "props": ["C18"],
            "failures": [] if ok else [{"msg": "query trait method does not take &self: %s" % bad, "source": bad[0], "text": str(bad)}]}


def c09_pfs_contract_text():
    """the contract of PrefetchSupport that the quad-tree unit assumes (external_body block in contracts/inc/qwt_core.vrs)
    is, clause for clause, the contract the unit `prefetch` proves of the real functions (contracts/inc/prefetch_core.vrs):
    the marked regions are compared after removing comment markers and whitespace"""
    verif = os.path.dirname(os.path.dirname(os.path.abspath(__file__)))

    def regions(path):
        txt = open(os.path.join(verif, path)).read()
        out = {}
        for m in re.finditer(r"// \[pfs-contract (\w+)\]\n(.*?)// \[pfs-end\]", txt, re.S):
            body = re.sub(r"^\s*//@", "", m.group(2), flags=re.M)
            out[m.group(1)] = re.sub(r"\s+", "", body).rstrip(",")
        return out
    a = regions("contracts/inc/qwt_core.vrs")
    b = regions("contracts/inc/prefetch_core.vrs")
    names = ["new", "approx_rank_unchecked", "vx_approx_mono"]
    bad = [n for n in names if n not in a or n not in b or a[n] != b[n]]
    ok = not bad
    return {"id": "static:c09:pfs-contract-text", "engine": "scan", "kind": "proved", "ok": ok,
            "function": "PrefetchSupport::{new, approx_rank_unchecked} (assumed in unit qwt_* = proved in unit prefetch)",
            "file": "contracts/inc/qwt_core.vrs", "failures": [] if ok else [{"msg": "assumed and proved contract texts differ for: %s" % bad, "source": ""}]}


def c18_send_sync():
    """rustc obligation: every public structure is Send + Sync (a small program that only has to type-check)"""
    import replay_search
    ok, conclusive, err = replay_search.check_send_sync()
    o = {"id": "rustc:c18_send_sync", "engine": "rustc (auto-trait obligations)", "kind": "proved", "ok": ok,
         "function": "Send + Sync for the public structures (replay/src/bin/sendsync.rs)", "file": "src/", "props": ["C18"], "failures": []}
    if not ok:
        if conclusive:
            m = re.findall(r"`([^`]+)` cannot be (?:sent|shared) between threads safely", err)
            o["failures"] = [{"msg": "a public structure is no longer Send + Sync: %s" % sorted(set(m))[:4], "source": "", "text": err}]
        else:
            o["inconclusive"] = "the Send + Sync program does not compile against this tree for another reason: %s" % err[-400:]
    return o


def for_property(prop):
    if prop == "C09":
        return [c09_cfg_sites(), c09_pfs_contract_text()]
    if prop == "C18":
        return [c18_no_interior_mutability(), c18_queries_take_shared_ref(), c18_send_sync()]
    return []
