#!/usr/bin/env python3
"""seedsave.py <id> <patch> <demo> <meta.txt> <property> [<property>...] — store a confirmed seeded change"""
import json, os, shutil, sys
sid, patch, demo, meta, props = sys.argv[1], sys.argv[2], sys.argv[3], sys.argv[4], sys.argv[5:]
d = os.path.join(os.path.dirname(os.path.dirname(os.path.abspath(__file__))), "seeded", sid)
os.makedirs(d, exist_ok=True)
shutil.copy(patch, os.path.join(d, "patch.diff"))
shutil.copy(demo, os.path.join(d, "demo.rs"))
json.dump({"id": sid, "breaks": props, "needs_to_manifest": open(meta).read().strip(),
           "source": "independent sub-agent given only the property text and a scratch worktree",
           "confirmed": "tools/confirm_seed.sh: patch applies; cargo test --offline passes with the patch (64 unit + 113 doc tests); demo exits 0 on the clean tree and non-zero with the patch (debug and release)",
           "detected_by": None}, open(os.path.join(d, "meta.json"), "w"), indent=1)
print("saved", d)
