#!/bin/bash
# usage: mut.sh <unit> <file> <sed-expr>   — applies a sed mutation to a scratch copy of /repo and runs one verus unit on it
set -e
M=/dev/shm/mrepo.$$
rm -rf $M; mkdir -p $M; rsync -a --exclude target --exclude .git /repo/ $M/
sed -i "$3" $M/$2
if diff -q /repo/$2 $M/$2 >/dev/null; then echo "MUTATION DID NOT APPLY"; rm -rf $M; exit 3; fi
cd /verif && VERIF_REPO=$M python3 tools/vx.py $1 2>&1 | grep -E "^FAIL|^FAILURE|^INCONCLUSIVE|^verified" | grep -v vx_canary | cut -c1-260
rm -rf $M
