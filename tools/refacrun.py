#!/usr/bin/env python3
"""refacrun.py <id> — runs the Verus units touched by a behaviour-preserving edit (refactors/<id>/patch.diff) on a scratch copy.
Expected: every unit verifies (exit 0) or is inconclusive (exit 2); a reported failure is a false alarm of the machinery."""
import json, os, re, shutil, subprocess, sys, tempfile
V = os.path.dirname(os.path.dirname(os.path.abspath(__file__)))
rid = sys.argv[1]
patch = os.path.join(V, "refactors", rid, "patch.diff")
files = re.findall(r"^\+\+\+ b/(\S+)", open(patch).read(), re.M)
UNITS = {"src/quadwt/mod.rs": ["qwt_u64"], "src/qvector/mod.rs": ["qvector"], "src/qvector/rs_qvector.rs": ["rsq"],
         "src/qvector/rs_qvector/rs_support_plain.rs": ["rsq"], "src/bitvector/mod.rs": ["bitvector"], "src/bitvector/rs_wide.rs": ["rswide"],
         "src/bitvector/rs_narrow.rs": ["rsnarrow"], "src/darray/mod.rs": ["darray"], "src/binwt/mod.rs": ["wt_u64"],
         "src/utils/mod.rs": ["utils_u64", "utils_u8", "qwt_u64", "wt_u64", "bitvector"], "src/quadwt/prefetch_support.rs": ["prefetch"]}
target = tempfile.mkdtemp(prefix="refac-", dir="/dev/shm")
try:
    subprocess.run(["rsync", "-a", "--exclude", "target", "--exclude", ".git", "/repo/", target + "/"], check=True)
    subprocess.run(["git", "init", "-q"], cwd=target)
    r = subprocess.run(["git", "apply", patch], cwd=target, capture_output=True, text=True)
    if r.returncode:
        print(rid, "patch does not apply", r.stderr[:200]); sys.exit(3)
    env = dict(os.environ, VERIF_REPO=target)
    for f in files:
        for u in UNITS.get(f, []):
            pr = subprocess.run(["python3", os.path.join(V, "tools", "vx.py"), u], capture_output=True, text=True, cwd=V, env=env)
            out = pr.stdout + pr.stderr
            fails = [l for l in out.split("\n") if l.startswith("FAILURE") and "get_bits" not in l]
            inc = [l for l in out.split("\n") if l.startswith("INCONCLUSIVE")]
            verdict = "FALSE-ALARM" if fails else ("inconclusive" if inc else "ok")
            print(rid, f, u, verdict)
            for l in (fails + inc)[:3]:
                print("    ", l[:260])
finally:
    shutil.rmtree(target, ignore_errors=True)
