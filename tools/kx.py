#!/usr/bin/env python3
"""Kani engine.

The real crate is copied from /repo's working tree to a scratch directory; no
line of any function is changed.  Two additions are made to the copy:
  * harness modules from /verif/kani/*.rs are copied next to the source file
    they attach to and declared at its end as `#[cfg(kani)] mod verif_kani;`
    (a child module sees the private items of its parent);
  * function-contract attributes (`#[cfg_attr(kani, kani::requires(..))]`,
    `kani::ensures(..)`) listed in kani/manifest.json are inserted in front of
    the functions they name (located by their signature line; a lost anchor is
    inconclusive, exit 2).
`cfg(kani)` is set by Kani itself.
"""
import hashlib
import json
import os
import re
import shutil
import subprocess
import tempfile
import time

VERIF = os.path.dirname(os.path.dirname(os.path.abspath(__file__)))
REPO = os.environ.get("VERIF_REPO", "/repo")
CACHE = os.path.join(VERIF, ".cache")
TIERS = {"quick": ("quick",), "thorough": ("quick", "thorough")}


class Inconclusive(Exception):
    pass


def manifest():
    return json.load(open(os.path.join(VERIF, "kani", "manifest.json")))


def build_overlay(dst):
    """Copy /repo (without target/.git) to dst and apply the overlay.
    Returns digest of the resulting source tree."""
    m = manifest()
    if os.path.exists(dst):
        shutil.rmtree(dst)
    shutil.copytree(REPO, dst, ignore=shutil.ignore_patterns("target", ".git", "*.qwt256"))
    for ov in m["overlays"]:
        src = os.path.join(dst, ov["attach"])
        if not os.path.exists(src):
            raise Inconclusive("lost anchor: %s does not exist" % ov["attach"])
        modfile = "verif_kani_%s.rs" % ov["name"]
        # a file `x.rs` with children in `x/` or a `mod.rs`: children live in the directory of the module
        d = os.path.dirname(src)
        base = os.path.basename(src)
        if base not in ("mod.rs", "lib.rs", "main.rs"):
            d = os.path.join(d, base[:-3])
            os.makedirs(d, exist_ok=True)
        shutil.copy(os.path.join(VERIF, ov["module"]), os.path.join(d, modfile))
        with open(src, "a") as f:
            f.write("\n#[cfg(kani)]\n#[path = \"%s\"]\nmod verif_kani;\n" % os.path.join(d, modfile))
    for at in m.get("attrs", []):
        p = os.path.join(dst, at["file"])
        s = open(p).read()
        anchor = at["before"]
        if s.count(anchor) != 1:
            raise Inconclusive("lost anchor in %s: `%s` occurs %d times" % (at["file"], anchor, s.count(anchor)))
        ins = "".join("#[cfg_attr(kani, %s)]\n" % a for a in at["lines"])
        # keep indentation of the anchor line
        idx = s.index(anchor)
        ls = s.rfind("\n", 0, idx) + 1
        indent = s[ls:idx] if s[ls:idx].strip() == "" else ""
        ins = "".join(indent + ln + "\n" for ln in ins.strip().split("\n"))
        s = s[:ls] + ins + s[ls:]
        open(p, "w").write(s)
    if m.get("crate_attrs"):
        p = os.path.join(dst, "src/lib.rs")
        s = open(p).read()
        # crate attributes must come first (after the leading #![...] lines is fine too)
        s = "".join("#![cfg_attr(kani, %s)]\n" % a for a in m["crate_attrs"]) + s
        open(p, "w").write(s)
    with open(os.path.join(dst, ".cargo-config-placeholder"), "w") as f:
        f.write("")
    os.makedirs(os.path.join(dst, ".cargo"), exist_ok=True)
    with open(os.path.join(dst, ".cargo", "config.toml"), "w") as f:
        f.write("[net]\noffline = true\n")
    h = hashlib.sha256()
    for root, dirs, files in sorted(os.walk(os.path.join(dst, "src"))):
        dirs.sort()
        for fn in sorted(files):
            fp = os.path.join(root, fn)
            h.update(os.path.relpath(fp, dst).encode())
            h.update(open(fp, "rb").read().replace(dst.encode(), b"<overlay>"))
    h.update(open(os.path.join(dst, "Cargo.toml"), "rb").read())
    return h.hexdigest()


_CHK = re.compile(r"^(?:Thread (\d+): )?Checking harness (\S+?)\.\.\.")
_RES = re.compile(r"^VERIFICATION:- (SUCCESSFUL|FAILED)")
_TIME = re.compile(r"^Verification Time: ([0-9.]+)s")


def parse_terse(out):
    """Returns {harness_path: {ok, time_s, text}}"""
    res = {}
    cur_by_thread = {}
    cur = None
    buf = {}
    for ln in out.split("\n"):
        m = _CHK.match(ln)
        if m:
            th = m.group(1) or "0"
            cur_by_thread[th] = m.group(2)
            buf[m.group(2)] = []
            cur = m.group(2)
            continue
        m2 = re.match(r"^Thread (\d+): ?(.*)$", ln)
        if m2:
            cur = cur_by_thread.get(m2.group(1), cur)
            ln = m2.group(2)
        if cur is None:
            continue
        buf[cur].append(ln)
        m = _RES.match(ln)
        if m:
            res.setdefault(cur, {})["ok"] = m.group(1) == "SUCCESSFUL"
        m = _TIME.match(ln)
        if m:
            res.setdefault(cur, {})["time_s"] = float(m.group(1))
    for k in res:
        res[k]["text"] = "\n".join(buf.get(k, []))[-6000:]
    return res


def kani_cmd(harness_names, jobs, extra=()):
    cmd = ["cargo", "kani", "-Z", "function-contracts", "-Z", "stubbing", "-Z", "unstable-options",
           "--harness-timeout", os.environ.get("VERIF_KANI_HARNESS_TIMEOUT", "2400s"),
           "--output-format=terse", "-j", str(jobs)]
    for h in harness_names:
        cmd += ["--harness", h]
    cmd += list(extra)
    return cmd


def run_for_property(prop, tier, scratch, seed=0, only=None):
    m = manifest()
    hs = [h for h in m["harnesses"] if prop in h["props"] and h.get("tier", "quick") in TIERS[tier]]
    if only:
        hs = [h for h in hs if h["name"] in only]
    if not hs:
        return {"harnesses": [], "trusted": [], "cmd": "", "wall_s": 0}
    t0 = time.time()
    ov = tempfile.mkdtemp(prefix="kani-overlay-", dir=scratch)
    try:
        digest = build_overlay(ov)
        ver = subprocess.run("cargo kani --version", shell=True, capture_output=True, text=True).stdout.strip()
        out = []
        todo = []
        for h in hs:
            key = hashlib.sha256(("kx1|%s|%s|%s" % (digest, h["name"], ver)).encode()).hexdigest()[:32]
            cp = os.path.join(CACHE, "kx", key + ".json")
            h = dict(h, _cache=cp)
            if os.path.exists(cp) and not os.environ.get("VERIF_NOCACHE"):
                try:
                    r = json.load(open(cp))
                    r["cached"] = True
                    out.append(r)
                    continue
                except Exception:
                    pass
            todo.append(h)
        cmd_s = ""
        if todo:
            # one cargo-kani run at a time across all checks on this machine: concurrent checks share most harnesses, so the
            # later one finds the results in the cache instead of repeating the work (and the memory) of the first
            import fcntl
            os.makedirs(CACHE, exist_ok=True)
            _lk = open(os.path.join(CACHE, "kani.lock"), "w")
            fcntl.flock(_lk, fcntl.LOCK_EX)
            still = []
            for h in todo:
                if os.path.exists(h["_cache"]) and not os.environ.get("VERIF_NOCACHE"):
                    try:
                        r = json.load(open(h["_cache"]))
                        r["cached"] = True
                        out.append(r)
                        continue
                    except Exception:
                        pass
                still.append(h)
            todo = still
        try:
          if todo:
              target = os.path.join(CACHE, "kani-target")
              os.makedirs(target, exist_ok=True)
              # The target directory is shared by all trees ever checked, and this cargo decides freshness of the root package
              # by source mtimes only (its build directory does not depend on the overlay's path): a copy of a tree whose
              # files are older than the last build would be taken as up to date and verified against the PREVIOUS tree's
              # artifacts.  Stamp every source of this overlay with the current time, under the lock, right before the build.
              # (Not needed when the last build in this directory was of exactly this overlay content: recorded in a stamp
              # file that is removed before any other build and written only after cargo kani compiled without error.)
              _stamp = os.path.join(target, ".last-overlay-digest")
              _same = os.path.exists(_stamp) and open(_stamp).read().strip() == digest
              if not _same:
                  if os.path.exists(_stamp):
                      os.remove(_stamp)
                  _now = time.time()
                  for _root, _dirs, _files in os.walk(ov):
                      for _f in _files:
                          try:
                              os.utime(os.path.join(_root, _f), (_now, _now))
                          except OSError:
                              pass
              env = dict(os.environ, CARGO_NET_OFFLINE="true", CARGO_TARGET_DIR=target)
              jobs = min(len(todo), int(os.environ.get("VERIF_KANI_JOBS", "8")))
              cmd = kani_cmd([h["name"] for h in todo], jobs)
              cmd_s = " ".join(cmd)
              timeout = int(os.environ.get("VERIF_KANI_TIMEOUT", "7200"))
              try:
                  pr = subprocess.run(cmd, cwd=ov, env=env, capture_output=True, text=True, timeout=timeout)
              except subprocess.TimeoutExpired:
                  raise Inconclusive("cargo kani timed out after %ds on %s" % (timeout, [h["name"] for h in todo]))
              txt = pr.stdout + "\n" + pr.stderr
              if "error: could not compile" in txt or "error[E" in txt:
                  errs = [ln for ln in txt.split("\n") if ln.startswith("error")][:5]
                  raise Inconclusive("overlay does not compile under Kani (changed interface?): %s" % " | ".join(errs))
              if "Checking harness" in txt:      # compiled and reached verification: the artifacts are this overlay's
                  open(_stamp, "w").write(digest)
              parsed = parse_terse(pr.stdout)
              for h in todo:
                  hit = [v for k, v in parsed.items() if k.split("::")[-1] == h["name"]]
                  rec = {
                      "id": "kani:%s" % h["name"], "engine": "kani/cbmc", "kind": h.get("kind", "proved"),
                      "bound": h.get("bound"), "ok": False, "time_s": 0.0,
                      "function": "; ".join(h.get("functions", [])), "file": h.get("file", ""),
                      "props": h["props"], "harness": h["name"],
                  }
                  if not hit or "ok" not in hit[0]:
                      why = "timed out or produced no result"
                      if "out of memory" in txt.lower():
                          why = "ran out of memory"
                      rec["inconclusive"] = "harness %s %s (per-harness limit %s)" % (
                          h["name"], why, os.environ.get("VERIF_KANI_HARNESS_TIMEOUT", "2400s"))
                      out.append(rec)
                      continue
                  r = hit[0]
                  only_unwind = (not r["ok"] and "unwinding assertion" in r["text"]
                                 and not re.search(r"Failed Checks: (?!unwinding assertion)", r["text"]))
                  if only_unwind:
                      rec["inconclusive"] = "harness %s: only unwinding assertions failed (the stated bound is too small for this tree; not a violation)" % h["name"]
                      out.append(rec)
                      continue
                  if not r["ok"] and ("CBMC timed out" in r["text"] or "out of memory" in r["text"].lower()):
                      rec["inconclusive"] = "harness %s: CBMC timed out / out of memory (limit %s)" % (
                          h["name"], os.environ.get("VERIF_KANI_HARNESS_TIMEOUT", "2400s"))
                      out.append(rec)
                      continue
                  rec["ok"] = r["ok"]
                  rec["time_s"] = r.get("time_s", 0.0)
                  if not r["ok"]:
                      fc = [ln for ln in r["text"].split("\n") if "Failed Checks" in ln or ln.strip().startswith("File:")]
                      rec["failures"] = [{"msg": "; ".join(x.strip() for x in fc)[:600] or "verification failed",
                                          "source": h["name"], "text": r["text"][-3000:]}]
                      rec["counterexample"] = {"harness": h["name"]}
                  # vacuity: every cover must be satisfiable
                  mc = re.search(r"\*\* (\d+) of (\d+) cover properties satisfied", r["text"])
                  if mc and mc.group(1) != mc.group(2) and r["ok"]:
                      rec["ok"] = False
                      rec["inconclusive"] = ("harness %s: %s of %s cover properties satisfied (vacuous assumption?)"
                                             % (h["name"], mc.group(1), mc.group(2)))
                      out.append(rec)
                      continue
                  rec["cached"] = False
                  os.makedirs(os.path.dirname(h["_cache"]), exist_ok=True)
                  tmp = h["_cache"] + ".%d.tmp" % os.getpid()
                  json.dump(rec, open(tmp, "w"))
                  os.replace(tmp, h["_cache"])
                  out.append(rec)
        finally:
            if "_lk" in locals():
                fcntl.flock(_lk, fcntl.LOCK_UN)
                _lk.close()
        trusted = scan_trusted()
        return {"harnesses": out, "trusted": trusted, "cmd": cmd_s or "cargo kani (all results from content-addressed cache)",
                "wall_s": time.time() - t0}
    finally:
        shutil.rmtree(ov, ignore_errors=True)


def scan_trusted():
    out = []
    m = manifest()
    for ov in m["overlays"]:
        for k, ln in enumerate(open(os.path.join(VERIF, ov["module"])).read().split("\n")):
            s = ln.strip()
            if s.startswith("//"):
                continue
            if re.search(r"kani::assume\(|kani::stub\(|stub_verified|kani::unwind", ln):
                out.append("%s:%d: %s" % (ov["module"], k + 1, s[:140]))
    return out


def replay_counterexample(o, scratch_root="/dev/shm"):
    """Re-run the failed harness with concrete playback and execute the
    generated unit test against the normally compiled real crate."""
    name = o.get("harness") or o["id"].split(":", 1)[1]
    ov = tempfile.mkdtemp(prefix="kani-replay-", dir=scratch_root)
    try:
        build_overlay(ov)
        target = os.path.join(CACHE, "kani-target")
        env = dict(os.environ, CARGO_NET_OFFLINE="true", CARGO_TARGET_DIR=target)
        cmd = ["cargo", "kani", "-Z", "function-contracts", "-Z", "stubbing", "-Z", "concrete-playback",
               "--concrete-playback=print", "--harness", name, "--output-format=terse"]
        import fcntl
        os.makedirs(CACHE, exist_ok=True)
        with open(os.path.join(CACHE, "kani.lock"), "w") as _lk:
            fcntl.flock(_lk, fcntl.LOCK_EX)     # same lock and same freshness stamp as run_for_property
            _stamp = os.path.join(target, ".last-overlay-digest")
            if os.path.exists(_stamp):
                os.remove(_stamp)               # after this build the directory no longer holds the recorded overlay
            _now = time.time()
            for _root, _dirs, _files in os.walk(ov):
                for _f in _files:
                    try:
                        os.utime(os.path.join(_root, _f), (_now, _now))
                    except OSError:
                        pass
            try:
                pr = subprocess.run(cmd, cwd=ov, env=env, capture_output=True, text=True, timeout=1800)
            except subprocess.TimeoutExpired:
                return {"input_found": False, "note": "concrete playback timed out"}
        txt = pr.stdout
        m = re.search(r"```\n(.*?)```", txt, re.S)
        test = m.group(1) if m else None
        if not test:
            return {"input_found": False, "note": "kani produced no concrete playback test", "kani_output": txt[-3000:]}
        # decode the byte vectors into integers for readability
        vals = re.findall(r"//\s*(.*?)\n\s*vec!\[([0-9, ]*)\]", test)
        inputs = [{"value": v.strip(), "bytes": b} for v, b in vals]
        return {"input_found": True, "harness": name, "concrete_playback_test": test, "inputs": inputs,
                "how": "cargo kani -Z concrete-playback --concrete-playback=print; values are the little-endian bytes of each kani::any() in order"}
    finally:
        shutil.rmtree(ov, ignore_errors=True)


if __name__ == "__main__":
    import sys
    prop = sys.argv[1]
    tier = sys.argv[2] if len(sys.argv) > 2 else "quick"
    only = sys.argv[3:] or None
    sc = tempfile.mkdtemp(prefix="kx-", dir="/dev/shm")
    try:
        r = run_for_property(prop, tier, sc, only=only)
        for h in r["harnesses"]:
            print("%-5s %7.1fs %s %s" % ("ok" if h["ok"] else ("INCON" if h.get("inconclusive") else "FAIL"), h.get("time_s", 0), h["id"], "(cached)" if h.get("cached") else ""))
            if h.get("inconclusive"):
                print("   ", h["inconclusive"])
            elif not h["ok"]:
                print(h["failures"][0]["msg"])
                print(h["failures"][0]["text"][-1500:])
        print("wall %.1f" % r["wall_s"])
    except Inconclusive as e:
        print("INCONCLUSIVE:", e)
        sys.exit(2)
    finally:
        shutil.rmtree(sc, ignore_errors=True)
