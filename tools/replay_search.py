"""Builds the witness-search program against /repo's working tree (plain cargo, offline) and runs it."""
import json, os, shutil, subprocess, tempfile
VERIF = os.path.dirname(os.path.dirname(os.path.abspath(__file__)))
REPO = os.environ.get("VERIF_REPO", "/repo")

def which_suite(o):
    f = (o.get("file") or "") + " " + (o.get("function") or "") + " " + o.get("id", "")
    for key, suite in (("quadwt/huffqwt", "hqwt"), ("quadwt", "qwt"), ("binwt", "wt"), ("rs_qvector", "rsq"), ("rs_support_plain", "rsq"),
                       ("rs_wide", "rsbin"), ("rs_narrow", "rsbin"), ("darray", "darray"), ("qvector", "qvector"),
                       ("bitvector", "bitvector"), ("utils", "utils"), ("lib.rs", "qwt")):
        if key in f:
            return suite
    return "all"

def search(prop, o, seconds=45):
    suite = which_suite(o)
    wd = tempfile.mkdtemp(prefix="witness-", dir="/dev/shm")
    try:
        shutil.copytree(os.path.join(VERIF, "replay", "src"), os.path.join(wd, "src"))
        open(os.path.join(wd, "Cargo.toml"), "w").write(open(os.path.join(VERIF, "replay", "Cargo.toml.in")).read().replace("@REPO@", REPO).replace("@QWT_FEATURES@", _FEAT.get("v", "")).replace("@CHECKS@", "false" if _FEAT.get("plain") else "true"))
        lock = os.path.join(VERIF, "replay", "Cargo.lock")
        if os.path.exists(lock):
            shutil.copy(lock, os.path.join(wd, "Cargo.lock"))
        env = dict(os.environ, CARGO_NET_OFFLINE="true", CARGO_TARGET_DIR=os.path.join(VERIF, ".cache", "witness-target"))
        exe, err = build_program()
        if exe is None:
            return {"input_found": False, "note": "witness program does not build against the changed tree", "build_error": err}
        for seed in (1, 2, 3):
            try:
                r = subprocess.run([exe, suite, str(seconds // 3), str(seed)], capture_output=True, text=True, timeout=seconds + 120)
            except subprocess.TimeoutExpired:
                continue
            last = [l for l in r.stdout.strip().split("\n") if l.startswith("{")]
            if r.returncode != 0 and not last:
                return {"input_found": True, "suite": suite, "note": "the real crate aborted the witness program (exit %d)" % r.returncode, "stderr": r.stderr[-800:]}
            if last:
                try:
                    j = json.loads(last[-1])
                except Exception:
                    continue
                if j.get("found"):
                    j["input_found"] = True
                    j["suite"] = suite
                    j["how"] = "differential run of the real crate (cargo build --release with overflow checks and debug assertions) against a naive oracle"
                    return j
        return {"input_found": False, "suite": suite, "note": "no failing input in %d s of differential search (small / random inputs)" % seconds}
    finally:
        shutil.rmtree(wd, ignore_errors=True)


# ---------------------------------------------------------------------------------------------------------------
# Bounded differential exploration as an obligation of its own (labelled `bounded`; never counted as proved): the same
# program, run for a fixed time budget per suite on every check.  Results are cached by the content of /repo/src,
# the program's source, the suite, the budget and the seed.
import hashlib
import threading
_FEAT_LOCK = threading.Lock()


def _digest(extra):
    h = hashlib.sha256()
    for root in (os.path.join(REPO, "src"), os.path.join(VERIF, "replay", "src")):
        for dp, dn, fn in sorted(os.walk(root)):
            dn.sort()
            for f in sorted(fn):
                if f.endswith(".rs"):
                    p = os.path.join(dp, f)
                    h.update(os.path.relpath(p, root).encode())
                    h.update(open(p, "rb").read())
    for f in ("Cargo.toml", "Cargo.lock"):
        p = os.path.join(REPO, f)
        if os.path.exists(p):
            h.update(open(p, "rb").read())
    h.update(_tree_digest().encode())      # every other file of the tree (build script, data files read at compile time, ...)
    h.update(repr(extra).encode())
    return h.hexdigest()[:32]


def _tree_digest():
    """digest of everything the build of the crate can read: every file of the tree except target/ and .git/"""
    h = hashlib.sha256()
    for dp, dn, fn in os.walk(REPO):
        dn[:] = sorted(d for d in dn if not (dp == REPO and d in ("target", ".git")))
        for f in sorted(fn):
            p = os.path.join(dp, f)
            if f.endswith(".qwt256") or not os.path.isfile(p):
                continue
            h.update(os.path.relpath(p, REPO).encode() + b"\0")
            try:
                h.update(open(p, "rb").read())
            except OSError:
                pass
    return h.hexdigest()[:24]


_FIXED_MTIME = 946684800   # 2000-01-01


def _stage_repo():
    """Copy of the tree at a path that is a function of its CONTENT, all files with one fixed old mtime.  cargo keys the
    artifacts of a path dependency by its path and decides freshness by mtimes: built from /repo itself, a tree restored
    with its old timestamps after another tree was built would be taken as up to date and the program would run the
    previous tree's code.  A content-addressed path cannot be stale, and the fixed mtime means an unchanged tree is not
    rebuilt.  Call under the witness lock; remove with _unstage_repo() before releasing it."""
    dst = os.path.join("/dev/shm", "qwt-wsrc-" + _tree_digest())
    if os.path.exists(dst):
        shutil.rmtree(dst, ignore_errors=True)
    shutil.copytree(REPO, dst, ignore=shutil.ignore_patterns("target", ".git", "*.qwt256"), symlinks=True)
    for dp, dn, fn in os.walk(dst):
        for f in fn + dn:
            try:
                os.utime(os.path.join(dp, f), (_FIXED_MTIME, _FIXED_MTIME), follow_symlinks=False)
            except OSError:
                pass
    return dst


def _unstage_repo(dst):
    shutil.rmtree(dst, ignore_errors=True)


_BUILD = {}
_FEAT = {}   # "v": extra text in the dependency line (", default-features = false" for the build without the prefetch feature)


def build_program():
    """builds the witness program against the current tree once per process; returns (exe, error)"""
    bkey = "r" + _FEAT.get("v", "") + ("|plain" if _FEAT.get("plain") else "")
    if bkey in _BUILD:
        return _BUILD[bkey]
    wd = tempfile.mkdtemp(prefix="witness-", dir="/dev/shm")
    staged = None
    try:
        shutil.copytree(os.path.join(VERIF, "replay", "src"), os.path.join(wd, "src"))
        lock = os.path.join(VERIF, "replay", "Cargo.lock")
        if os.path.exists(lock):
            shutil.copy(lock, os.path.join(wd, "Cargo.lock"))
        tdir = os.path.join(VERIF, ".cache", "witness-target")
        os.makedirs(tdir, exist_ok=True)
        env = dict(os.environ, CARGO_NET_OFFLINE="true", CARGO_TARGET_DIR=tdir)
        import fcntl
        # the target directory is shared by all checks: build and take a private copy of the binary under one lock, so
        # that a concurrent check of another tree cannot swap the binary in between
        with open(os.path.join(VERIF, ".cache", "witness-target.lock"), "w") as lk:
            fcntl.flock(lk, fcntl.LOCK_EX)
            staged = _stage_repo()
            open(os.path.join(wd, "Cargo.toml"), "w").write(open(os.path.join(VERIF, "replay", "Cargo.toml.in")).read().replace("@REPO@", staged).replace("@QWT_FEATURES@", _FEAT.get("v", "")).replace("@CHECKS@", "false" if _FEAT.get("plain") else "true"))
            b = subprocess.run(["cargo", "build", "--release", "--offline", "--bin", "qwt-witness"], cwd=wd, env=env, capture_output=True, text=True, timeout=1800)
            if b.returncode != 0:
                _BUILD[bkey] = (None, b.stderr[-1500:])
            else:
                exe = os.path.join("/dev/shm", "qwt-witness-%s-%d" % (_digest("exe" + _FEAT.get("v", "") + ("|plain" if _FEAT.get("plain") else "")), os.getpid()))
                shutil.copy(os.path.join(tdir, "release", "qwt-witness"), exe)
                import atexit
                atexit.register(lambda p=exe: os.path.exists(p) and os.remove(p))   # private to this process: removed when it ends
                _BUILD[bkey] = (exe, None)
            _unstage_repo(staged)
            staged = None
    finally:
        shutil.rmtree(wd, ignore_errors=True)
        if staged:
            _unstage_repo(staged)
    return _BUILD[bkey]


def run_suite(suite, seconds, seed, no_default_features=False, plain_release=False):
    """no_default_features: build the crate without its default `prefetch` feature (C09 quantifies over both)"""
    import threading
    with _FEAT_LOCK:
        _FEAT["v"] = ", default-features = false" if no_default_features else ""
        _FEAT["plain"] = bool(plain_release)   # release profile WITHOUT overflow checks and debug assertions (C10: both build kinds)
        exe_err = build_program()
        _FEAT["v"] = ""
        _FEAT["plain"] = False
    cdir = os.path.join(VERIF, ".cache", "wx")
    os.makedirs(cdir, exist_ok=True)
    key = _digest((suite, seconds, seed, bool(no_default_features), bool(plain_release)))
    cp = os.path.join(cdir, key + ".json")
    if os.path.exists(cp) and not os.environ.get("VERIF_NOCACHE"):
        return json.load(open(cp))
    exe, err = exe_err
    if exe is None:
        return {"suite": suite, "built": False, "found": False, "note": "witness program does not build against this tree", "build_error": err}
    try:
        r = subprocess.run([exe, suite, str(seconds), str(seed)], capture_output=True, text=True, timeout=seconds + 300)
    except subprocess.TimeoutExpired:
        return {"suite": suite, "built": True, "found": False, "note": "timeout"}
    last = [l for l in r.stdout.strip().split("\n") if l.startswith("{")]
    res = {"suite": suite, "built": True, "found": False, "seconds": seconds, "seed": seed}
    if r.returncode != 0 and not last:
        res.update({"found": True, "structure": suite, "call": "(process aborted)", "observed": "abort, exit %d" % r.returncode, "expected": "no abort", "stderr": r.stderr[-600:]})
    elif last:
        try:
            j = json.loads(last[-1])
            res.update(j)
        except Exception:  # noqa: BLE001
            res["note"] = "unparsable output"
    json.dump(res, open(cp, "w"))
    return res


def check_send_sync():
    """type-checks replay/src/bin/sendsync.rs against the current tree: (ok, conclusive, compiler output)"""
    wd = tempfile.mkdtemp(prefix="sendsync-", dir="/dev/shm")
    try:
        shutil.copytree(os.path.join(VERIF, "replay", "src"), os.path.join(wd, "src"))
        lock = os.path.join(VERIF, "replay", "Cargo.lock")
        if os.path.exists(lock):
            shutil.copy(lock, os.path.join(wd, "Cargo.lock"))
        tdir = os.path.join(VERIF, ".cache", "witness-target")
        os.makedirs(tdir, exist_ok=True)
        env = dict(os.environ, CARGO_NET_OFFLINE="true", CARGO_TARGET_DIR=tdir)
        import fcntl
        with open(os.path.join(VERIF, ".cache", "witness-target.lock"), "w") as lk:
            fcntl.flock(lk, fcntl.LOCK_EX)
            staged = _stage_repo()     # content-addressed copy: see _stage_repo
            try:
                open(os.path.join(wd, "Cargo.toml"), "w").write(open(os.path.join(VERIF, "replay", "Cargo.toml.in")).read().replace("@REPO@", staged).replace("@QWT_FEATURES@", _FEAT.get("v", "")).replace("@CHECKS@", "false" if _FEAT.get("plain") else "true"))
                b = subprocess.run(["cargo", "check", "--release", "--offline", "--bin", "sendsync"], cwd=wd, env=env, capture_output=True, text=True, timeout=1800)
            finally:
                _unstage_repo(staged)
        if b.returncode == 0:
            return True, True, ""
        err = b.stderr
        only_auto_trait = ("E0277" in err and ("cannot be sent between threads safely" in err or "cannot be shared between threads safely" in err)
                           and "sendsync.rs" in err)
        return False, only_auto_trait, err[-3000:]
    finally:
        shutil.rmtree(wd, ignore_errors=True)
