#!/usr/bin/env python3
"""seedrun.py <seed_id> [tier] — apply a seeded change to /repo, run the checks of the properties it
breaks, undo it straight afterwards; records which checks caught it in seeded/<id>/meta.json"""
import json, os, subprocess, sys
V = os.path.dirname(os.path.dirname(os.path.abspath(__file__)))
sid = sys.argv[1]; tier = sys.argv[2] if len(sys.argv) > 2 else "quick"
d = os.path.join(V, "seeded", sid)
meta = json.load(open(os.path.join(d, "meta.json")))
pm = json.load(open(os.path.join(V, "properties_map.json")))
assert subprocess.run(["git", "-C", "/repo", "status", "--porcelain", "--untracked-files=no"], capture_output=True, text=True).stdout.strip() == "", "/repo not clean"
r = subprocess.run(["git", "-C", "/repo", "apply", os.path.join(d, "patch.diff")], capture_output=True, text=True)
if r.returncode != 0:
    print("patch does not apply:", r.stderr); sys.exit(3)
res = {}
try:
    props = sys.argv[3:] or [p for p in meta["breaks"] if p in pm]
    for p in props:
        pr = subprocess.run(["python3", os.path.join(V, "check.py"), p, "--tier", tier], capture_output=True, text=True, cwd=V)
        viol = [l for l in pr.stdout.split("\n") if l.startswith("VIOLATION")]
        inc = [l for l in pr.stdout.split("\n") if l.startswith("INCONCLUSIVE")]
        res[p] = {"exit": pr.returncode, "violations": viol, "inconclusive": inc[:3]}
        print(p, "exit", pr.returncode); [print("  ", v) for v in viol]; [print("  ", v[:300]) for v in inc[:3]]
finally:
    subprocess.run(["git", "-C", "/repo", "checkout", "--", "."])
meta.setdefault("runs", {})[tier] = res
caught = [p for p, v in res.items() if v["exit"] == 1]
meta["detected_by"] = {"properties": caught, "tier": tier} if caught else meta.get("detected_by")
json.dump(meta, open(os.path.join(d, "meta.json"), "w"), indent=1)
