#!/usr/bin/env python3
"""seedrun.py <seed_id> [tier] [props...] — run the checks against a seeded change.
Default: on a scratch copy of /repo (VERIF_REPO) so that /repo itself is untouched while other work
reads it; with SEED_INPLACE=1 the patch is applied to /repo (git apply) and undone straight afterwards
(git checkout -- .).  Records which checks caught it in seeded/<id>/meta.json."""
import json, os, shutil, subprocess, sys, tempfile
V = os.path.dirname(os.path.dirname(os.path.abspath(__file__)))
sid = sys.argv[1]; tier = sys.argv[2] if len(sys.argv) > 2 else "quick"
d = os.path.join(V, "seeded", sid)
meta = json.load(open(os.path.join(d, "meta.json")))
pm = json.load(open(os.path.join(V, "properties_map.json")))
inplace = os.environ.get("SEED_INPLACE") == "1"
env = dict(os.environ)
if inplace:
    assert subprocess.run(["git", "-C", "/repo", "status", "--porcelain", "--untracked-files=no"], capture_output=True, text=True).stdout.strip() == "", "/repo not clean"
    target = "/repo"
else:
    target = tempfile.mkdtemp(prefix="seedrepo-", dir="/dev/shm")
    subprocess.run(["rsync", "-a", "--exclude", "target", "--exclude", ".git", "/repo/", target + "/"], check=True)
    subprocess.run(["git", "init", "-q"], cwd=target)
    env["VERIF_REPO"] = target
    env["VERIF_EVIDENCE_DIR"] = os.path.join(target, ".verif-evidence")
r = subprocess.run(["git", "apply", os.path.join(d, "patch.diff")], cwd=target, capture_output=True, text=True)
if r.returncode != 0:
    print("patch does not apply:", r.stderr)
    if not inplace: shutil.rmtree(target, ignore_errors=True)
    sys.exit(3)
res = {}
try:
    props = sys.argv[3:] or [p for p in meta["breaks"] if p in pm]
    for p in props:
        pr = subprocess.run(["python3", os.path.join(V, "check.py"), p, "--tier", tier], capture_output=True, text=True, cwd=V, env=env)
        viol = [l for l in pr.stdout.split("\n") if l.startswith("VIOLATION")]
        inc = [l for l in pr.stdout.split("\n") if l.startswith("INCONCLUSIVE")]
        res[p] = {"exit": pr.returncode, "violations": viol, "inconclusive": inc[:3]}
        print(sid, p, "exit", pr.returncode); [print("  ", v) for v in viol]; [print("  ", v[:300]) for v in inc[:3]]
finally:
    if inplace:
        subprocess.run(["git", "-C", "/repo", "checkout", "--", "."])
    else:
        shutil.rmtree(target, ignore_errors=True)
meta.setdefault("runs", {})[tier] = res
caught = [p for p, v in res.items() if v["exit"] == 1]
if caught:
    meta["detected_by"] = {"properties": caught, "tier": tier, "violations": sum((v["violations"] for v in res.values()), [])}
json.dump(meta, open(os.path.join(d, "meta.json"), "w"), indent=1)
