"""Lists every hunk (repository text -> verified text) of the Verus templates: python3 tools/listhunks.py [--md]"""
import glob, os, re, sys
VERIF = os.path.dirname(os.path.dirname(os.path.abspath(__file__)))
rows = []
for p in sorted(glob.glob(os.path.join(VERIF, "contracts", "inc", "*.vrs")) + glob.glob(os.path.join(VERIF, "contracts", "*.vrs"))):
    s = open(p).read()
    item = None
    pos = 0
    for m in re.finditer(r"//@item ([^\n]*)|/\*@-\*/(.*?)/\*@=(.*?)@\*/", s, re.S):
        if m.group(1) is not None:
            item = m.group(1).split(" props=")[0].split(" kind=")[0].split(" rename=")[0].strip()
        else:
            old = " ".join(m.group(2).split())
            new = " ".join(m.group(3).split())
            rows.append((os.path.relpath(p, VERIF), item, old, new))
if "--md" in sys.argv:
    print("| template | item | repository text | verified text |")
    print("|---|---|---|---|")
    for f, it, o, n in rows:
        cut = lambda x: (x[:157] + "...") if len(x) > 160 else x
        print("| %s | `%s` | `%s` | `%s` |" % (os.path.basename(f), it, cut(o).replace("|", "\\|"), cut(n).replace("|", "\\|")))
else:
    for r in rows:
        print("%s\n  item: %s\n  -  %s\n  +  %s" % r)
print("%d hunks" % len(rows), file=sys.stderr)
