#!/usr/bin/env python3
"""setup_cmd: checks that the verifiers answer and that every template anchor
still applies to /repo.  Builds nothing."""
import json, os, subprocess, sys
VERIF = os.path.dirname(os.path.dirname(os.path.abspath(__file__)))
sys.path.insert(0, os.path.join(VERIF, "tools"))
import vx
ok = True
for cmd in ("verus --version", "cargo kani --version", "cbmc --version"):
    r = subprocess.run(cmd, shell=True, capture_output=True, text=True)
    print(cmd, "->", (r.stdout.strip().split("\n") or [""])[0], "rc", r.returncode)
    ok &= r.returncode == 0
for name, u in vx.load_units().items():
    try:
        text, items = vx.expand(os.path.join(VERIF, "contracts", u["template"] + ".vrs"), u.get("defines"))
        d = [i["item"] for i in items if i["differs_from_template"]]
        print("unit %-14s %3d items%s" % (name, len(items), (" (repository differs from template in: %s)" % d) if d else ""))
    except vx.Inconclusive as e:
        print("unit", name, "INCONCLUSIVE:", e)
os.makedirs(os.path.join(VERIF, "evidence", "replay"), exist_ok=True)
sys.exit(0 if ok else 1)
