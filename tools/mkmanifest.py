#!/usr/bin/env python3
"""Regenerates MANIFEST.json from properties_map.json (claimed properties) and
not_applicable.json, and validates it against the schema."""
import json
import os
import sys

VERIF = os.path.dirname(os.path.dirname(os.path.abspath(__file__)))
pm = json.load(open(os.path.join(VERIF, "properties_map.json")))
na = json.load(open(os.path.join(VERIF, "not_applicable.json")))
all_ids = [json.loads(l)["id"] for l in open(os.path.join(VERIF, "properties.jsonl")) if l.strip()]

checks = []
for pid in all_ids:
    if pid not in pm:
        continue
    c = pm[pid]
    checks.append({
        "property_id": pid,
        "quick_cmd": "python3 check.py %s --tier quick" % pid,
        "thorough_cmd": "python3 check.py %s --tier thorough" % pid,
        "evidence_file": "evidence/%s.json" % pid,
        "replay_cmd_template": "python3 tools/replay.py {path}",
        "engine": "contracts",
        "level_claimed": {"category": c.get("level", "proof"), "text": c["level_text"], "design_ref": c.get("design_ref", "DESIGN.md §5")},
        "level_note": c["level_note"],
        "technique": c["technique"],
    })
claimed = {c["property_id"] for c in checks}
nas = [{"property_id": p, "reason": na[p]} for p in all_ids if p not in claimed]
missing = [p for p in all_ids if p not in claimed and p not in na]
if missing:
    print("properties neither claimed nor not_applicable:", missing)
    sys.exit(1)
man = {
    "version": 1,
    "setup_cmd": "python3 tools/selfcheck.py",
    "hooks": {
        "guard": "kani",
        "enable": "no hook is committed in /repo: cfg(kani) is set by `cargo kani` itself; harness modules and contract attributes are overlaid on a scratch copy of /repo's working tree by tools/kx.py; Verus units are generated from /repo's working tree by tools/vx.py",
        "baseline_off_cmd": "cd /repo && cargo test --workspace --no-fail-fast --offline",
        "source_commits": [],
        "add_only": True,
    },
    "engines": [
        {"name": "contracts", "path": "check.py", "serves_properties": sorted(claimed),
         "kind_free_text": "contract-based deductive verification: Verus (unbounded, function by function, annotations merged into the repository text on every run) + Kani function contracts / full-domain harnesses on bit-level kernels; bounded Kani harnesses only as labelled stand-ins"},
    ],
    "checks": checks,
    "not_applicable": nas,
    "notes": "exit 0 held / exit 1 VIOLATION / exit 2 inconclusive (lost anchor, unsupported construct, resource limit). Evidence is rewritten by every run. Known findings: known_findings.json.",
}
json.dump(man, open(os.path.join(VERIF, "MANIFEST.json"), "w"), indent=1)
try:
    import jsonschema
    jsonschema.validate(man, json.load(open("/root/.vp/MANIFEST.schema.json")))
    print("MANIFEST.json valid;", len(checks), "checks,", len(nas), "not applicable")
except ImportError:
    print("jsonschema not available; MANIFEST.json written,", len(checks), "checks")
