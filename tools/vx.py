#!/usr/bin/env python3
"""Verus engine.

A *unit* is a template file `contracts/<unit>.vrs`.  It is Verus source text in
which every piece of executable code of rossanoventurini/qwt appears inside an

    //@item <repo file> :: <item path> [props=C01,C04] [rename=T:u64,...]
    ... annotated copy of the item ...
    //@end

region.  Inside a region, the text *read as plain Rust with comments removed*
is, token for token, the item as it stands in the repository; everything the
verifier needs on top of it is written in annotation comments:

    //@ <text>                      insert <text> (whole line)
    /*@ <text> @*/                  insert <text> (inline)
    /*@-*/ <orig tokens> /*@= <replacement> @*/
                                    a *hunk*: the repository tokens <orig tokens>
                                    are replaced by <replacement> in the verified
                                    text (used only for constructs Verus cannot
                                    parse and for monomorphisation; every hunk is
                                    counted and listed in the fidelity report)

On every run the item is re-extracted from /repo's working tree, its tokens are
aligned with the template's plain tokens (difflib), and the annotations are
carried over to the *current* tokens.  So the verified text is always the code
that is in /repo now plus annotations; the template's copy of the code is only
the anchor for the annotations.  If the repository item changed inside the
<orig tokens> of a hunk the unit is inconclusive (exit 2), never an alarm.

Dropped on extraction (not part of the verified text): outer attributes and
doc comments of the item, all comments.
"""
import difflib
import hashlib
import json
import os
import re
import subprocess
import sys
import time

sys.path.insert(0, os.path.dirname(os.path.abspath(__file__)))
import rustlex  # noqa: E402

VERIF = os.path.dirname(os.path.dirname(os.path.abspath(__file__)))
REPO = os.environ.get("VERIF_REPO", "/repo")


class Inconclusive(Exception):
    pass


# --------------------------------------------------------------------------
# template parsing

def parse_region(text, line0):
    """Parse an item region into elements:
       ('tok', text) | ('ins', text) | ('repl', [tok texts], text)
    """
    els = []
    i = 0
    n = len(text)
    in_repl = None  # list collecting orig tokens
    while i < n:
        c = text[i]
        if c in " \t\r\n":
            i += 1
            continue
        if text.startswith("//@", i):
            j = text.find("\n", i)
            if j < 0:
                j = n
            body = text[i + 3:j]
            if body.startswith(" "):
                body = body[1:]
            if in_repl is not None:
                raise Inconclusive("template: //@ line inside a hunk (near line %d)" % (line0 + text.count("\n", 0, i)))
            els.append(("ins", "\n" + body + "\n"))
            i = j
            continue
        if text.startswith("//", i):
            j = text.find("\n", i)
            i = n if j < 0 else j
            continue
        if text.startswith("/*@-*/", i):
            if in_repl is not None:
                raise Inconclusive("template: nested hunk")
            in_repl = []
            i += 6
            continue
        if text.startswith("/*@=", i):
            if in_repl is None:
                raise Inconclusive("template: /*@= without /*@-*/ (near line %d)" % (line0 + text.count("\n", 0, i)))
            j = text.find("@*/", i)
            if j < 0:
                raise Inconclusive("template: unterminated /*@=")
            els.append(("repl", in_repl, text[i + 4:j]))
            in_repl = None
            i = j + 3
            continue
        if text.startswith("/*@", i):
            j = text.find("@*/", i)
            if j < 0:
                raise Inconclusive("template: unterminated /*@")
            if in_repl is not None:
                raise Inconclusive("template: insertion inside a hunk")
            els.append(("ins", text[i + 3:j]))
            i = j + 3
            continue
        if text.startswith("/*", i):
            i = rustlex.skip_block_comment(text, i)
            continue
        j = rustlex.lex_one(text, i)
        if in_repl is not None:
            in_repl.append(text[i:j])
        else:
            els.append(("tok", text[i:j]))
        i = j
    if in_repl is not None:
        raise Inconclusive("template: unterminated hunk")
    return els


_repo_cache = {}


def repo_tokens(relpath):
    p = os.path.join(REPO, relpath)
    if p not in _repo_cache:
        try:
            src = open(p).read()
        except OSError as e:
            raise Inconclusive("cannot read %s: %s" % (p, e))
        try:
            _repo_cache[p] = (src, rustlex.lex(src))
        except rustlex.LexError as e:
            raise Inconclusive("cannot lex %s: %s" % (p, e))
    return _repo_cache[p]


def merge_item(relpath, path, els, renames):
    """Returns (text, info).  info: fidelity record."""
    src, toks = repo_tokens(relpath)
    try:
        s, e = rustlex.locate(toks, path)
    except (KeyError, rustlex.LexError) as ex:
        raise Inconclusive("lost anchor: %s :: %s (%s)" % (relpath, path, ex))
    R = toks[s:e + 1]
    rtext = [t.text for t in R]

    # plain template tokens, with the element index they come from
    P = []
    owner = []      # for each plain token: (element index, is_hunk)
    for k, el in enumerate(els):
        if el[0] == "tok":
            P.append(el[1])
            owner.append((k, False))
        elif el[0] == "repl":
            for t in el[1]:
                P.append(t)
                owner.append((k, True))
    changed = P != rtext
    local_renames = {}
    rename_is_field = {}
    # map old plain index -> new index (for positions 0..len(P))
    if not changed:
        pos_map = list(range(len(P) + 1))
        matched = [True] * len(P)
    else:
        sm = difflib.SequenceMatcher(a=P, b=rtext, autojunk=False)
        pos_map = [None] * (len(P) + 1)
        matched = [False] * len(P)
        for tag, i1, i2, j1, j2 in sm.get_opcodes():
            if tag == "equal":
                for d in range(i2 - i1):
                    pos_map[i1 + d] = j1 + d
                    matched[i1 + d] = True
            else:
                for d in range(i2 - i1):
                    pos_map[i1 + d] = j1 + min(d, j2 - j1)
        pos_map[len(P)] = len(rtext)
        for i in range(len(P)):
            if pos_map[i] is None:
                pos_map[i] = pos_map[i - 1] if i else 0
        # a consistently renamed identifier (local variable, parameter): carry the rename into the annotations of this
        # item, so that a harmless rename does not leave the contracts talking about a name that no longer exists
        cand = {}
        after_dot = {}
        for tag, i1, i2, j1, j2 in sm.get_opcodes():
            if tag == "replace" and (i2 - i1) == (j2 - j1):
                for d in range(i2 - i1):
                    o, nw = P[i1 + d], rtext[j1 + d]
                    if o != nw and _IDENT.match(o) and _IDENT.match(nw) and o not in _KEYWORDS and nw not in _KEYWORDS:
                        cand.setdefault(o, set()).add(nw)
                        after_dot.setdefault(o, set()).add(i1 + d > 0 and P[i1 + d - 1] == ".")
        for o, news in cand.items():
            if len(news) == 1:
                nw = next(iter(news))
                if o not in rtext and nw not in P and len(after_dot[o]) == 1:
                    local_renames[o] = nw
                    rename_is_field[o] = next(iter(after_dot[o]))

    # build insertion table over new positions
    ins_at = {}      # new index -> list of texts inserted before that token
    skip = set()     # new indices suppressed by hunks
    n_hunks = 0
    hunks = []
    p = 0            # running plain index
    def _ren(txt):
        for o, nw in local_renames.items():
            if rename_is_field[o]:   # a field / method name: only where it is accessed through `.`
                txt = re.sub(r"(?<=\.)%s(?![A-Za-z0-9_])" % re.escape(o), nw, txt)
            else:                    # a local or a parameter: never after `.`
                txt = re.sub(r"(?<![A-Za-z0-9_.])%s(?![A-Za-z0-9_])" % re.escape(o), nw, txt)
        return txt
    for k, el in enumerate(els):
        if el[0] == "tok":
            p += 1
        elif el[0] == "ins":
            ins_at.setdefault(pos_map[p], []).append(_ren(el[1]))
        else:
            n = len(el[1])
            if not all(matched[p:p + n]) or (n and pos_map[p + n - 1] - pos_map[p] != n - 1):
                raise Inconclusive(
                    "hunk no longer applies in %s :: %s: repository tokens `%s` changed"
                    % (relpath, path, " ".join(el[1])))
            j1 = pos_map[p]
            for d in range(n):
                skip.add(j1 + d)
            ins_at.setdefault(j1, []).append(_ren(el[2]))
            n_hunks += 1
            hunks.append({"from": " ".join(el[1]), "to": el[2].strip()})
            p += n

    out = []
    n_renamed = 0
    for j, t in enumerate(R):
        if j in ins_at:
            out.append(t.ws if j not in skip else " ")
            for x in ins_at[j]:
                out.append(x)
            if j in skip:
                continue
            out.append(" ")
            txt = t.text
        else:
            if j in skip:
                continue
            out.append(t.ws if j else "")
            txt = t.text
        if txt in renames:
            txt = renames[txt]
            n_renamed += 1
        out.append(txt)
    for x in ins_at.get(len(R), []):
        out.append(x)
    item_src = src[R[0].pos:R[-1].end]
    info = {
        "file": relpath,
        "item": path,
        "repo_lines": [R[0].line, R[-1].line],
        "sha256": hashlib.sha256(item_src.encode()).hexdigest()[:16],
        "tokens": len(R),
        "hunks": hunks,
        "renamed_tokens": n_renamed,
        "differs_from_template": changed,
        "local_renames": local_renames,
    }
    return "".join(out), info


_IDENT = re.compile(r"^[A-Za-z_][A-Za-z0-9_]*$")
_KEYWORDS = set("as break const continue crate else enum extern false fn for if impl in let loop match mod move mut pub ref return self Self static struct super trait true type unsafe use where while async await dyn".split())
_ITEM = re.compile(r"^//@item\s+(\S+)\s+::\s+(.*?)\s*((?:\s+\w+=\S+)*)\s*$")


def expand(template_path, defines=None, _seen=None):
    """Expand a template into Verus source.  Returns (text, items)
    items: list of fidelity records with out_lines.  `$NAME$` in the template
    is replaced by defines[NAME] (monomorphisation parameters)."""
    _seen = _seen or set()
    defines = defines or {}
    if template_path in _seen:
        raise Inconclusive("recursive include %s" % template_path)
    _seen = _seen | {template_path}
    raw = open(template_path).read()
    for k, v in defines.items():
        raw = raw.replace("$" + k + "$", v)
    m = re.search(r"\$[A-Z_]+\$", raw)
    if m:
        raise Inconclusive("%s: undefined template parameter %s" % (template_path, m.group(0)))
    lines = raw.split("\n")
    out = []
    items = []
    i = 0
    while i < len(lines):
        ln = lines[i]
        if ln.startswith("//@include "):
            inc = os.path.join(VERIF, ln.split(None, 1)[1].strip())
            t, its = expand(inc, defines, _seen)
            base = sum(x.count("\n") for x in out) + len(out)
            for it in its:
                it["out_lines"] = [it["out_lines"][0] + base, it["out_lines"][1] + base]
            out.append(t)
            items.extend(its)
            i += 1
            continue
        mc = re.match(r"^//@corollary\s+(\w+)\s*((?:\s*\w+=\S+)*)\s*$", ln)
        if mc:
            # a verus-only function whose verification is itself an obligation of the listed properties
            # (e.g. "checked and unchecked variants agree", proved from the contracts alone)
            o = dict(kv.split("=", 1) for kv in mc.group(2).split())
            j = i + 1
            while j < len(lines) and lines[j].strip() != "//@end":
                j += 1
            if j >= len(lines):
                raise Inconclusive("%s:%d: //@corollary without //@end" % (template_path, i + 1))
            text = "\n".join(lines[i + 1:j])
            first = sum(x.count("\n") for x in out) + len(out) + 1
            out.append(text)
            items.append({"file": os.path.relpath(template_path, VERIF), "item": "corollary fn " + mc.group(1),
                          "repo_lines": [i + 2, j], "sha256": hashlib.sha256(text.encode()).hexdigest()[:16],
                          "tokens": 0, "hunks": [], "renamed_tokens": 0, "differs_from_template": False,
                          "props": o.get("props", "").split(",") if o.get("props") else [],
                          "template": os.path.relpath(template_path, VERIF) + ":%d" % (i + 1), "kind": "corollary",
                          "out_lines": [first, first + text.count("\n")]})
            i = j + 1
            continue
        m = _ITEM.match(ln)
        if m:
            relpath, path, opts = m.group(1), m.group(2), m.group(3)
            # options are trailing key=value words; the path itself may contain '=' only inside generics defaults (not used)
            o = dict(kv.split("=", 1) for kv in opts.split())
            j = i + 1
            while j < len(lines) and lines[j].strip() != "//@end":
                if _ITEM.match(lines[j]):
                    raise Inconclusive("%s:%d: //@item without //@end" % (template_path, i + 1))
                j += 1
            if j >= len(lines):
                raise Inconclusive("%s:%d: //@item without //@end" % (template_path, i + 1))
            region = "\n".join(lines[i + 1:j])
            els = parse_region(region, i + 2)
            renames = {}
            if "rename" in o:
                for kv in o["rename"].split(","):
                    a, b = kv.split(":")
                    renames[a] = b
            text, info = merge_item(relpath, path, els, renames)
            info["props"] = o.get("props", "").split(",") if o.get("props") else []
            info["template"] = os.path.relpath(template_path, VERIF) + ":%d" % (i + 1)
            info["kind"] = o.get("kind", "code")
            first = sum(x.count("\n") for x in out) + len(out) + 1
            out.append(text)
            info["out_lines"] = [first, first + text.count("\n")]
            items.append(info)
            i = j + 1
            continue
        out.append(ln)
        i += 1
    return "\n".join(out), items


# --------------------------------------------------------------------------
# running verus

_ERR = re.compile(r"^(error|warning)(\[[A-Z0-9]+\])?: (.*)$")
_LOC = re.compile(r"^\s*--> (.*?):(\d+):(\d+)")


def parse_diagnostics(stderr):
    """Return list of {level, msg, line, col, text}."""
    diags = []
    cur = None
    for ln in stderr.split("\n"):
        m = _ERR.match(ln)
        if m:
            cur = {"level": m.group(1), "code": m.group(2), "msg": m.group(3), "line": None, "col": None, "text": [ln]}
            diags.append(cur)
            continue
        if ln.startswith("note:") or ln.startswith("help:"):
            cur = None
            continue
        if cur is not None:
            cur["text"].append(ln)
            m = _LOC.match(ln)
            if m and cur["line"] is None:
                cur["line"] = int(m.group(2))
                cur["col"] = int(m.group(3))
    for d in diags:
        d["text"] = "\n".join(d["text"][:14])
    return diags


SEMANTIC = (
    "precondition not met", "postcondition not satisfied", "invariant not satisfied",
    "assertion failed", "possible arithmetic underflow/overflow", "possible division by zero",
    "possible bit shift underflow/overflow", "loop invariant", "decreases not satisfied",
    "could not prove termination", "index out of bounds", "possible arithmetic",
    "recommendation not met", "unwrap", "might not", "assertion not satisfied",
    "invariant not satisfied at end of loop body", "invariant not satisfied before loop",
    "call to panic", "unreachable", "cannot prove", "failed this postcondition", "failed precondition",
)


def run_verus(unit, src_text, workdir, seed=0, rlimit=None, threads=None):
    fn = os.path.join(workdir, unit + ".rs")
    with open(fn, "w") as f:
        f.write(src_text)
    cmd = ["verus", fn, "--output-json", "--time", "--multiple-errors", "10",
           "--triggers-mode", "silent", "--no-report-long-running"]
    if rlimit:
        cmd += ["--rlimit", str(rlimit)]
    if seed:
        cmd += ["--smt-option", "smt.random_seed=%d" % seed]
    if threads:
        cmd += ["--num-threads", str(threads)]
    if os.environ.get("VERIF_VX_ARGS"):   # development aid only (e.g. --verify-root --verify-function new)
        cmd += os.environ["VERIF_VX_ARGS"].split()
    t0 = time.time()
    try:
        pr = subprocess.run(cmd, cwd=workdir, capture_output=True, text=True, timeout=3600)
    except subprocess.TimeoutExpired:
        raise Inconclusive("verus timed out on unit %s" % unit)
    wall = time.time() - t0
    try:
        js = json.loads(pr.stdout)
    except Exception:
        raise Inconclusive("verus produced no JSON for unit %s: %s" % (unit, pr.stderr[-2000:]))
    return js, pr.stderr, wall, " ".join(cmd)



# ---------------------------------------------------------------------------------------------------------------
# Trait-impl scopes: a function ADDED to an `impl Trait for Type` block that has functions under contract overrides a
# provided method of the trait (e.g. `Iterator::nth`), i.e. changes behaviour that no template item sees.  The function
# names of every such block at the time the contracts were written are recorded in contracts/scope_baseline.json; a new
# name makes the unit inconclusive (never an alarm): the bounded differential exploration then speaks for the property.
def _scope_fn_names(relpath, scope_parts):
    src, toks = repo_tokens(relpath)
    scopes = [(0, len(toks))]
    for p_ in scope_parts:
        nxt = []
        for lo, hi in scopes:
            nxt.extend(rustlex.find_scope(toks, lo, hi, p_))
        scopes = nxt
    names = set()
    for lo, hi in scopes:
        j = lo
        while j < hi:
            t = toks[j].text
            if t == "{":
                j = rustlex.match_close(toks, j) + 1
                continue
            if t == "fn" and j + 1 < hi:
                names.add(toks[j + 1].text)
            j += 1
    return sorted(names)


def trait_impl_scopes(items):
    out = {}
    for it in items:
        parts = [x.strip() for x in it["item"].split(" :: ")]
        if len(parts) < 2 or not parts[-1].startswith("fn "):
            continue
        header = parts[-2]
        if not header.startswith("impl") or " for " not in header:
            continue
        out.setdefault((it["file"], tuple(parts[:-1])), None)
    return sorted(out)


def check_scope_baseline(items):
    bp = os.path.join(VERIF, "contracts", "scope_baseline.json")
    base = json.load(open(bp)) if os.path.exists(bp) else {}
    for relpath, scope in trait_impl_scopes(items):
        key = relpath + " :: " + " :: ".join(scope)
        if key not in base:
            continue
        try:
            cur = _scope_fn_names(relpath, scope)
        except Exception:  # noqa: BLE001
            continue
        new = [n for n in cur if n not in base[key]]
        if new:
            raise Inconclusive("new function(s) %s in `%s` of %s are not under contract (a method added to a trait impl overrides a "
                               "provided method of the trait)" % (new, scope[-1], relpath))


def load_units():
    # VERIF_UNITS: development only (a unit registry being worked on, not yet registered)
    return json.load(open(os.environ.get("VERIF_UNITS") or os.path.join(VERIF, "units.json")))


def verify_unit(unit, workdir, seed=0, keep=False):
    """Expand + run.  Returns result dict:
      functions: {name: {success, time_ms, kind, props, item}}
      failures: [ {function, msg, line, text, semantic} ]
      canary_ok, trusted (scan), fidelity, wall_s, cmd
    """
    u = load_units()[unit]
    tpl = os.path.join(VERIF, "contracts", u["template"] + ".vrs")
    text, items = expand(tpl, u.get("defines"))
    check_scope_baseline(items)
    js, stderr, wall, cmd = run_verus(unit, text, workdir, seed)
    vr = js.get("verification-results", {})
    diags = parse_diagnostics(stderr)
    errors = [d for d in diags if d["level"] == "error" and not d["msg"].startswith("aborting due to")]
    # compile-level failure: no function breakdown and errors without verification
    funcs = {}
    try:
        for mod in js["times-ms"]["smt"]["smt-run-module-times"]:
            for fb in mod.get("function-breakdown", []):
                name = fb["function"].split("::", 1)[1] if "::" in fb["function"] else fb["function"]
                funcs[name] = {"success": fb["success"], "time_ms": fb["time"], "mode": fb.get("mode:", "")}
    except KeyError:
        pass
    if vr.get("encountered-vir-error") or (not funcs and errors) or any(e["code"] for e in errors):
        raise Inconclusive("unit %s does not compile under Verus (unsupported construct or changed interface):\n%s"
                           % (unit, "\n".join(e["text"] for e in errors[:5])))
    # rlimit
    rl = [e for e in errors if "rlimit" in e["msg"].lower() or "resource limit" in e["msg"].lower()]
    if rl:
        js2, stderr2, wall2, cmd = run_verus(unit, text, workdir, seed, rlimit=60)
        wall += wall2
        diags = parse_diagnostics(stderr2)
        errors = [d for d in diags if d["level"] == "error" and not d["msg"].startswith("aborting due to")]
        funcs = {}
        for mod in js2["times-ms"]["smt"]["smt-run-module-times"]:
            for fb in mod.get("function-breakdown", []):
                name = fb["function"].split("::", 1)[1] if "::" in fb["function"] else fb["function"]
                funcs[name] = {"success": fb["success"], "time_ms": fb["time"], "mode": fb.get("mode:", "")}
        rl = [e for e in errors if "rlimit" in e["msg"].lower() or "resource limit" in e["msg"].lower()]
        js = js2
        if rl:
            raise Inconclusive("unit %s: solver resource limit exceeded even with rlimit 60:\n%s" % (unit, rl[0]["text"]))
    # attribute errors to items by line
    lines = text.split("\n")
    canary_line = None
    for k, ln in enumerate(lines):
        if "fn vx_canary" in ln:
            canary_line = k + 1
    failures = []
    canary_failed = False
    for e in errors:
        if e["line"] is None:
            continue
        if canary_line and abs(e["line"] - canary_line) <= 3:
            canary_failed = True
            continue
        # every generated line mentioned by the diagnostic (primary span and
        # secondary spans such as "at the end of the function body")
        mentioned = [e["line"]] + [int(x) for x in re.findall(r"^\s*(\d+) [|/]", e["text"], re.M)]
        owners = []
        for ml in mentioned:
            for it in items:
                if it["out_lines"][0] <= ml <= it["out_lines"][1] and it not in owners:
                    owners.append(it)
        fn_owners = [it for it in owners if re.search(r"\bfn\s+\w+\s*$", it["item"])]
        use = fn_owners or owners
        src_line = lines[e["line"] - 1].strip() if 0 < e["line"] <= len(lines) else ""
        failures.append({
            "item": (use[0]["file"] + " :: " + use[0]["item"]) if use else None,
            "items": [it["file"] + " :: " + it["item"] for it in use],
            "props": sorted({p for it in use for p in it["props"]}),
            "msg": e["msg"], "line": e["line"], "source": src_line, "text": e["text"],
        })
    if canary_line and not canary_failed and not os.environ.get("VERIF_VX_ARGS"):
        raise Inconclusive("unit %s: canary `ensures false` verified — assumptions of the unit are contradictory" % unit)
    trusted = scan_trusted(text)
    res = {
        "unit": unit, "functions": funcs, "failures": failures, "items": items,
        "trusted": trusted, "wall_s": round(wall, 2), "cmd": cmd,
        "verified": vr.get("verified"), "errors": vr.get("errors"),
        "smt_ms": js.get("times-ms", {}).get("smt", {}).get("smt-run"),
        "verus_version": js.get("verus", {}).get("version"),
    }
    if keep:
        res["source"] = text
    return res


_TRUST = re.compile(r"(assume\s*\(|admit\s*\(|external_body|assume_specification|external_fn_specification|external_type_specification|#\[verifier::external\]|by\s*\(\s*nonlinear_arith\s*\)|by\s*\(\s*bit_vector\s*\)|by\s*\(\s*compute)")


def scan_trusted(text):
    """Mechanical scan for assumptions in the generated file."""
    out = []
    lines = text.split("\n")
    for k, ln in enumerate(lines):
        s = ln.strip()
        if s.startswith("//"):
            continue
        m = re.search(r"(assume\s*\(|admit\s*\(|external_body|assume_specification|external_fn_specification|external_type_specification|verifier::external\b)", ln)
        if m:
            # find a name: next line(s) with fn / the bracket content
            ctx = s
            if "external_body" in ln or "verifier::external" in ln:
                for kk in range(k, min(k + 4, len(lines))):
                    mm = re.search(r"fn\s+(\w+)", lines[kk])
                    if mm:
                        ctx = "external_body fn " + mm.group(1)
                        break
            elif "assume_specification" in ln:
                mm = re.search(r"\[(.*?)\]", ln)
                ctx = "assume_specification " + (mm.group(1).strip() if mm else s)
            out.append("%s (generated line %d)" % (ctx[:160], k + 1))
    return out


def main(argv):
    import argparse
    import tempfile
    ap = argparse.ArgumentParser()
    ap.add_argument("unit")
    ap.add_argument("--emit", action="store_true", help="print the generated Verus source and stop")
    ap.add_argument("--diff", action="store_true", help="show where the repository differs from the template's copy")
    ap.add_argument("--out", help="write generated source here")
    a = ap.parse_args(argv)
    u = load_units()[a.unit]
    tpl = os.path.join(VERIF, "contracts", u["template"] + ".vrs")
    try:
        text, items = expand(tpl, u.get("defines"))
    except Inconclusive as e:
        print("INCONCLUSIVE:", e)
        return 2
    if a.diff:
        for it in items:
            if it["differs_from_template"]:
                print("DIFFERS:", it["file"], "::", it["item"])
        return 0
    if a.out:
        open(a.out, "w").write(text)
    if a.emit:
        print(text)
        return 0
    wd = tempfile.mkdtemp(prefix="vx-", dir="/dev/shm")
    try:
        res = verify_unit(a.unit, wd)
    except Inconclusive as e:
        print("INCONCLUSIVE:", e)
        return 2
    finally:
        import shutil
        shutil.rmtree(wd, ignore_errors=True)
    for f, v in sorted(res["functions"].items()):
        print("%-6s %6d ms  %s" % ("ok" if v["success"] else "FAIL", v["time_ms"], f))
    for f in res["failures"]:
        print("FAILURE in", f["item"], ":", f["msg"], "| line", f["line"], "|", f["source"])
        print(f["text"])
    print("verified", res["verified"], "errors", res["errors"], "(canary included) wall", res["wall_s"])
    return 1 if res["failures"] else 0


if __name__ == "__main__":
    sys.exit(main(sys.argv[1:]))
