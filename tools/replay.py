#!/usr/bin/env python3
"""Shows a replay file written by check.py (obligation, failed clauses,
verifier output, counterexample / witness) and, for a Kani counterexample,
re-runs the concrete playback."""
import json, sys
rec = json.load(open(sys.argv[1]))
print("property   :", rec["property"])
print("obligation :", rec["obligation"])
print("function   :", rec.get("file"), "::", rec.get("function"), "lines", rec.get("repo_lines"))
for f in rec.get("failed_clauses", []):
    print("failed     :", f.get("msg"), "|", f.get("source"))
    print(f.get("text", ""))
print("replayed   :", json.dumps(rec.get("replayed"), indent=1))
