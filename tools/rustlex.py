"""Minimal Rust lexer used by the Verus template merger (vx.py) and the Kani
overlay (kx.py).  Comments are folded into whitespace; every token keeps the
whitespace that preceded it in the source so that extracted items are emitted
with the repository's own layout (line numbers in diagnostics stay meaningful).
"""
import re
from dataclasses import dataclass


@dataclass
class Tok:
    text: str
    ws: str       # whitespace (with comments folded away) preceding the token
    line: int     # 1-based line in the source file
    pos: int      # byte offset of the token in the source text
    end: int


_IDENT = re.compile(r"[A-Za-z_][A-Za-z0-9_]*")
_NUM = re.compile(r"[0-9][0-9A-Za-z_]*(?:\.[0-9][0-9A-Za-z_]*)?")
_RAWSTR = re.compile(r'b?r(#*)"')
_LIFETIME = re.compile(r"'[A-Za-z_][A-Za-z0-9_]*(?!')")
_CHAR = re.compile(r"b?'(?:\\.[^']*|[^'\\])'")


class LexError(Exception):
    pass


def skip_block_comment(s, i):
    """s[i:i+2] == '/*'; returns index just past the (nested) comment."""
    depth = 0
    n = len(s)
    while i < n:
        if s.startswith("/*", i):
            depth += 1
            i += 2
        elif s.startswith("*/", i):
            depth -= 1
            i += 2
            if depth == 0:
                return i
        else:
            i += 1
    raise LexError("unterminated block comment")


def lex_one(s, i):
    """Lex one token starting at s[i] (not whitespace, not a comment).
    Returns end index."""
    c = s[i]
    m = _RAWSTR.match(s, i)
    if m:
        closing = '"' + m.group(1)
        j = s.find(closing, m.end())
        if j < 0:
            raise LexError("unterminated raw string")
        return j + len(closing)
    if c == '"' or (c == 'b' and s.startswith('b"', i)):
        j = i + (2 if c == 'b' else 1)
        while j < len(s):
            if s[j] == '\\':
                j += 2
            elif s[j] == '"':
                return j + 1
            else:
                j += 1
        raise LexError("unterminated string")
    if c == "'" or (c == 'b' and s.startswith("b'", i)):
        m = _LIFETIME.match(s, i)
        if m:
            return m.end()
        m = _CHAR.match(s, i)
        if m:
            return m.end()
        raise LexError("bad char literal at %d" % i)
    m = _IDENT.match(s, i)
    if m:
        return m.end()
    m = _NUM.match(s, i)
    if m:
        # do not swallow `0..n` range dots: the regex requires a digit after '.'
        return m.end()
    return i + 1  # single punctuation character


def lex(s, start=0, end=None, line0=1):
    """Tokenise s[start:end]."""
    toks = []
    i = start
    n = len(s) if end is None else end
    line = line0
    ws = []
    while i < n:
        c = s[i]
        if c in " \t\r\n":
            if c == "\n":
                line += 1
            ws.append(c)
            i += 1
            continue
        if s.startswith("//", i):
            j = s.find("\n", i)
            if j < 0 or j > n:
                j = n
            i = j
            continue
        if s.startswith("/*", i):
            j = skip_block_comment(s, i)
            nl = s.count("\n", i, j)
            line += nl
            ws.append("\n" * nl if nl else " ")
            i = j
            continue
        j = lex_one(s, i)
        toks.append(Tok(s[i:j], "".join(ws), line, i, j))
        line += s.count("\n", i, j)
        ws = []
        i = j
    return toks


OPEN = {"{": "}", "(": ")", "[": "]"}
CLOSE = {"}": "{", ")": "(", "]": "["}


def match_close(toks, i):
    """toks[i] is an opening bracket; return index of its matching close."""
    depth = 0
    for j in range(i, len(toks)):
        t = toks[j].text
        if t in OPEN:
            depth += 1
        elif t in CLOSE:
            depth -= 1
            if depth == 0:
                return j
    raise LexError("unbalanced brackets from token %d (%s line %d)" % (i, toks[i].text, toks[i].line))


def norm(texts):
    return "".join(texts)


_MODIFIERS = {"pub", "unsafe", "const", "async", "extern", "default"}


def _item_start(toks, k, lo):
    """Walk back from keyword index k over modifiers (pub, pub(crate), unsafe,
    const, extern "C").  Outer attributes and doc comments are NOT included."""
    s = k
    while s - 1 >= lo:
        t = toks[s - 1].text
        if t in _MODIFIERS:
            s -= 1
        elif t.startswith('"') and s - 2 >= lo and toks[s - 2].text == "extern":
            s -= 2
        elif t == ")" and s - 1 >= lo:
            # pub(crate) / pub(super)
            j = s - 1
            while j >= lo and toks[j].text != "(":
                j -= 1
            if j - 1 >= lo and toks[j - 1].text == "pub":
                s = j - 1
            else:
                break
        else:
            break
    return s


def _item_end(toks, k, hi):
    """k is the keyword index (fn/struct/const/...).  Returns index of the
    last token of the item."""
    depth = 0
    j = k
    while j < hi:
        t = toks[j].text
        if t in ("(", "["):
            depth += 1
        elif t in (")", "]"):
            depth -= 1
        elif t == "{" and depth == 0:
            e = match_close(toks, j)
            # tuple/unit structs end with ';' — `struct A { .. }` does not
            return e
        elif t == ";" and depth == 0:
            return j
        j += 1
    raise LexError("item starting at line %d has no end" % toks[k].line)


def find_scope(toks, lo, hi, header):
    """Find `impl ...`/`trait X`/`mod x` whose header (tokens before `{`)
    matches `header` (whitespace-insensitive) among items at brace depth 0 of
    toks[lo:hi].  Returns (body_lo, body_hi) — token indices inside braces."""
    want = norm(t.text for t in lex(header))
    j = lo
    depth = 0
    cands = []
    while j < hi:
        t = toks[j].text
        if t == "{":
            j = match_close(toks, j) + 1
            continue
        if depth == 0 and t in ("impl", "trait", "mod"):
            # header runs to the first '{' or ';'
            k = j
            while k < hi and toks[k].text not in ("{", ";"):
                k += 1
            if k < hi and toks[k].text == "{":
                got = norm(x.text for x in toks[j:k])
                e = match_close(toks, k)
                if got == want:
                    cands.append((k + 1, e))
                j = e + 1
                continue
        j += 1
    return cands


def find_item(toks, lo, hi, kind, name):
    """Find item `kind name` at brace depth 0 of toks[lo:hi].
    Returns list of (start, end_inclusive)."""
    out = []
    j = lo
    while j < hi:
        t = toks[j].text
        if t == "{":
            j = match_close(toks, j) + 1
            continue
        if t == kind and j + 1 < hi and toks[j + 1].text == name:
            # `const fn` : kind 'fn' is found at the fn token; for kind
            # 'const' make sure the next token is not `fn`
            s = _item_start(toks, j, lo)
            e = _item_end(toks, j, hi)
            out.append((s, e))
            j = e + 1
            continue
        if t in ("impl", "trait", "mod", "fn", "struct", "enum", "union"):
            # skip over nested item bodies
            k = j
            d = 0
            while k < hi:
                x = toks[k].text
                if x in ("(", "["):
                    d += 1
                elif x in (")", "]"):
                    d -= 1
                elif d == 0 and x in ("{", ";"):
                    break
                k += 1
            if k < hi and toks[k].text == "{":
                j = match_close(toks, k) + 1
            else:
                j = k + 1
            continue
        j += 1
    return out


def locate(toks, path):
    """path: 'impl X for Y :: fn name' etc.  Returns (start, end_inclusive)."""
    parts = [p.strip() for p in path.split("::: ")] if ":::" in path else None
    if parts is None:
        # split on ' :: ' (with spaces) so that `a::b` paths inside headers survive
        parts = [p.strip() for p in path.split(" :: ")]
    scopes = [(0, len(toks))]
    for p in parts[:-1]:
        nxt = []
        for lo, hi in scopes:
            nxt.extend(find_scope(toks, lo, hi, p))
        if not nxt:
            raise KeyError("scope not found: %s" % p)
        scopes = nxt
    last = parts[-1].split()
    if last[0] in ("impl", "trait", "mod") and len(last) >= 2 and parts[-1].endswith("{}"):
        raise KeyError("whole-scope extraction not supported")
    kind, name = last[0], last[1]
    found = []
    for lo, hi in scopes:
        found.extend(find_item(toks, lo, hi, kind, name))
    if not found:
        raise KeyError("item not found: %s" % path)
    if len(found) > 1:
        raise KeyError("item ambiguous (%d matches): %s" % (len(found), path))
    return found[0]
